//! C04 — element-wise arithmetic, maps, reductions: case generation for the Coq correspondence and the
//! failure-search oracle.
#![allow(clippy::needless_range_loop)]
use crate::util::*;
use compute::linalg::{dot, inf_norm, logmeanexp, logsumexp, norm, prod, sum, Matrix, Vector};
use compute::statistics::max;

// ---------------------------------------------------------------------------------------------
// values
const SPECIALS: [f64; 14] = [0.0, -0.0, f64::INFINITY, f64::NEG_INFINITY, f64::NAN, 5e-324, -5e-324, 2.2250738585072014e-308,
    1.7976931348623157e308, -1.7976931348623157e308, 1.0, -1.0, 1e-300, 4.4501477170144023e-308];

#[derive(Clone, Copy, PartialEq)]
enum Mode { Reals, Special, Ints, Unit, Pos }

fn val(r: &mut Rng, m: Mode) -> f64 {
    match m {
        Mode::Reals => { let e = r.range(-6, 6) as i32; r.uniform(-4.0, 4.0) * 2f64.powi(e) }
        Mode::Special => if r.coin(0.3) { *r.pick(&SPECIALS) } else if r.coin(0.2) { f64::from_bits(r.next()) } else { r.uniform(-3.0, 3.0) },
        Mode::Ints => r.small_int(9),
        Mode::Unit => r.uniform(-1.0, 1.0),
        Mode::Pos => r.uniform(0.01, 6.0),
    }
}
fn vals(r: &mut Rng, n: usize, m: Mode) -> Vec<f64> { (0..n).map(|_| val(r, m)).collect() }
fn has_special(v: &[f64]) -> bool { v.iter().any(|x| !x.is_finite() || *x == 0.0 || x.abs() < 2.3e-308) }
fn nontrivial(n: usize, vs: &[&[f64]]) -> bool { (n >= 9 && n % 8 != 0) || vs.iter().any(|v| has_special(v)) }

fn mat_out(m: &Matrix) -> Vec<f64> {
    let mut v = vec![m.nrows as f64, m.ncols as f64];
    v.extend_from_slice(&m.data);
    v
}
fn mat_tm(r: usize, c: usize, d: &[f64]) -> Tm { app("mkmat", vec![Tm::Nat(r as u64), Tm::Nat(c as u64), fl(d)]) }
fn raw(s: &str) -> Tm { Tm::Raw(s.into()) }
/// a Matrix with the given fields, bypassing `Matrix::new` (the fields are public)
fn mk(r: usize, c: usize, d: &[f64]) -> Matrix { Matrix { data: Vector::new(d.to_vec()), nrows: r, ncols: c } }

macro_rules! binop { ($t:expr, $a:expr, $b:expr) => { match $t { 0 => $a + $b, 1 => $a - $b, 2 => $a * $b, _ => $a / $b } } }
macro_rules! asgop { ($t:expr, $a:expr, $b:expr) => { match $t { 0 => $a += $b, 1 => $a -= $b, 2 => $a *= $b, _ => $a /= $b } } }

const TRAITS: [&str; 4] = ["TAdd", "TSub", "TMul", "TDiv"];
const ATRAITS: [&str; 4] = ["TAddAssign", "TSubAssign", "TMulAssign", "TDivAssign"];
const TOKS: [&str; 4] = ["VAdd", "VSub", "VMul", "VDiv"];

/// Vector op Vector, the four ownership forms
fn vec_vec(t: usize, form: usize, a: &[f64], b: &[f64]) -> Result<Vec<f64>, String> {
    let (x, y) = (Vector::new(a.to_vec()), Vector::new(b.to_vec()));
    catch(move || { let r: Vector = match form { 0 => binop!(t, x, y), 1 => binop!(t, &x, &y), 2 => binop!(t, x, &y), _ => binop!(t, &x, y) }; r.v })
}
const VV_FORMS: [(&str, &str); 4] = [("TyVector", "TyVector"), ("TyRefVector", "TyRefVector"), ("TyVector", "TyRefVector"), ("TyRefVector", "TyVector")];
/// Vector op= Vector: (owned, borrowed); the borrowed form also returns the borrowed operand afterwards
fn vec_vec_assign(t: usize, form: usize, a: &[f64], b: &[f64]) -> Result<Vec<f64>, String> {
    let (mut x, y) = (Vector::new(a.to_vec()), Vector::new(b.to_vec()));
    catch(move || { if form == 0 { asgop!(t, x, y); x.v } else { asgop!(t, x, &y); let mut o = x.v; o.extend_from_slice(&y.v); o } })
}
/// Vector op f64 / f64 op Vector: forms (V,f) (&V,f) (f,V) (f,&V)
fn vec_scalar(t: usize, form: usize, a: &[f64], s: f64) -> Result<Vec<f64>, String> {
    let x = Vector::new(a.to_vec());
    catch(move || { let r: Vector = match form { 0 => binop!(t, x, s), 1 => binop!(t, &x, s), 2 => binop!(t, s, x), _ => binop!(t, s, &x) }; r.v })
}
const VS_FORMS: [(&str, &str); 4] = [("TyVector", "TyF64"), ("TyRefVector", "TyF64"), ("TyF64", "TyVector"), ("TyF64", "TyRefVector")];
fn vec_scalar_assign(t: usize, a: &[f64], s: f64) -> Result<Vec<f64>, String> {
    let mut x = Vector::new(a.to_vec());
    catch(move || { asgop!(t, x, s); x.v })
}
/// Matrix op f64 / f64 op Matrix: forms (M,f) (&M,f) (f,M) (f,&M)
fn mat_scalar(t: usize, form: usize, m: &Matrix, s: f64) -> Result<Vec<f64>, String> {
    let x = m.clone();
    catch(move || { let r: Matrix = match form { 0 => binop!(t, x, s), 1 => binop!(t, &x, s), 2 => binop!(t, s, x), _ => binop!(t, s, &x) }; mat_out(&r) })
}
const MS_FORMS: [(&str, &str); 4] = [("TyMatrix", "TyF64"), ("TyRefMatrix", "TyF64"), ("TyF64", "TyMatrix"), ("TyF64", "TyRefMatrix")];
fn mat_scalar_assign(t: usize, m: &Matrix, s: f64) -> Result<Vec<f64>, String> {
    let mut x = m.clone();
    catch(move || { asgop!(t, x, s); mat_out(&x) })
}
fn mat_mat_assign(t: usize, form: usize, m1: &Matrix, m2: &Matrix) -> Result<Vec<f64>, String> {
    let (mut x, y) = (m1.clone(), m2.clone());
    catch(move || { if form == 0 { asgop!(t, x, y); mat_out(&x) } else { asgop!(t, x, &y); let mut o = mat_out(&x); o.extend(mat_out(&y)); o } })
}
fn mat_mat(t: usize, form: usize, m1: &Matrix, m2: &Matrix) -> Result<Vec<f64>, String> {
    let (x, y) = (m1.clone(), m2.clone());
    catch(move || { let r: Matrix = match form { 0 => binop!(t, x, y), 1 => binop!(t, &x, &y), 2 => binop!(t, x, &y), _ => binop!(t, &x, y) }; mat_out(&r) })
}

// ---------------------------------------------------------------------------------------------
// the 29 maps: Coq constructor, Vector method, Matrix method, scalar method, input mode, and the name under which
// the SCALAR method's values enter the table the Coq model reads (None: the model computes the map with IEEE operations)
type VM = fn(&Vector) -> Vector;
type MM = fn(&Matrix) -> Matrix;
type SM = fn(f64) -> f64;
type MapRow = (&'static str, VM, MM, SM, Mode, Option<&'static str>);
macro_rules! maps { ($(($c:literal, $m:ident, $mode:expr, $t:expr)),* $(,)?) => { [ $( ($c, (|v: &Vector| v.$m()) as VM, (|m: &Matrix| m.$m()) as MM, (|x: f64| x.$m()) as SM, $mode, $t) ),* ] } }
fn all_maps() -> [MapRow; 29] {
    maps![("ULn", ln, Mode::Pos, Some("Ln")), ("ULn1p", ln_1p, Mode::Pos, Some("Ln1p")), ("ULog10", log10, Mode::Pos, Some("Log10")), ("ULog2", log2, Mode::Pos, Some("Log2")),
          ("UExp", exp, Mode::Reals, Some("Exp")), ("UExp2", exp2, Mode::Reals, Some("Exp2")), ("UExpm1", exp_m1, Mode::Reals, Some("Expm1")),
          ("USin", sin, Mode::Reals, Some("Sin")), ("UCos", cos, Mode::Reals, Some("Cos")), ("UTan", tan, Mode::Reals, Some("Tan")),
          ("USinh", sinh, Mode::Reals, Some("Sinh")), ("UCosh", cosh, Mode::Reals, Some("Cosh")), ("UTanh", tanh, Mode::Reals, Some("Tanh")),
          ("UAsin", asin, Mode::Unit, Some("Asin")), ("UAcos", acos, Mode::Unit, Some("Acos")), ("UAtan", atan, Mode::Reals, Some("Atan")),
          ("UAsinh", asinh, Mode::Reals, Some("Asinh")), ("UAcosh", acosh, Mode::Pos, Some("Acosh")), ("UAtanh", atanh, Mode::Unit, Some("Atanh")),
          ("USqrt", sqrt, Mode::Pos, None), ("UCbrt", cbrt, Mode::Reals, Some("Cbrt")), ("UAbs", abs, Mode::Reals, None),
          ("UFloor", floor, Mode::Reals, Some("Floor")), ("UCeil", ceil, Mode::Reals, Some("Ceil")),
          ("UToRadians", to_radians, Mode::Reals, None), ("UToDegrees", to_degrees, Mode::Reals, None),
          ("URecip", recip, Mode::Reals, None), ("URound", round, Mode::Reals, Some("Round")), ("USignum", signum, Mode::Reals, None)]
}
/// the table of the SCALAR f64 method on the elements (the claim is kernel-vs-scalar): (name, x, x.method())
fn scalar_table(f: SM, name: Option<&'static str>, v: &[f64]) -> crate::libm::Table {
    let mut t = crate::libm::Table::default();
    if let Some(nm) = name {
        for x in v {
            let x = std::hint::black_box(*x);
            if !t.t1.iter().any(|e| e.1.to_bits() == x.to_bits() || (e.1.is_nan() && x.is_nan())) { t.t1.push((nm, x, std::hint::black_box(f(x)))); }
        }
    }
    t
}

fn lengths(thorough: bool, dense_to: usize, r: &mut Rng) -> Vec<usize> {
    let mut l: Vec<usize> = (0..=dense_to).collect();
    for x in [24usize, 31, 32, 33, 39, 40] { if x > dense_to { l.push(x); } }
    if thorough { for _ in 0..6 { l.push(41 + r.below(400) as usize); } }
    l
}
/// shapes r x c with r*c = n (n >= 1): 1 x n, n x 1 and one proper factorisation when there is one
fn shapes_of(n: usize) -> Vec<(usize, usize)> {
    let mut s = vec![(1, n)];
    if n > 1 { s.push((n, 1)); }
    for d in 2..n { if n % d == 0 { s.push((d, n / d)); break; } }
    s
}

const REDS: [&str; 6] = ["RSum", "RProd", "RNorm", "RMax", "RLogsumexp", "RLogmeanexp"];
fn run_red(k: usize, form: usize, v: &[f64]) -> Result<Vec<f64>, String> {
    let x = v.to_vec();
    catch(move || vec![match form {
        0 => match k { 0 => sum(&x), 1 => prod(&x), 2 => norm(&x), 3 => max(&x), 4 => logsumexp(&x), _ => logmeanexp(&x) },
        1 => { let w = Vector::new(x); match k { 0 => w.sum(), 1 => w.prod(), 2 => w.norm(), 3 => w.max(), 4 => w.logsumexp(), _ => w.logmeanexp() } }
        _ => { let n = x.len(); let w = mk(1, n, &x); match k { 0 => w.sum(), 1 => w.prod(), 2 => w.norm(), _ => w.max() } }
    }])
}

fn lq(q: &mut Vec<(Tm, String)>, t: Tm, tag: &str, _nt: bool) { q.push((t, tag.to_string())); }
fn spread(cs: &mut Cases, q: &mut Vec<(Tm, String)>, tick: &mut usize) { *tick += 1; if *tick % 12 == 0 { if let Some((t, tag)) = q.pop() { cs.push(t, &tag, true); } } }

pub fn gen(tier: &str, seed: u64, outdir: &str) {
    let mut r = Rng::new(seed);
    let mut cs = Cases::new("C04");
    let thorough = tier == "thorough";
    let modes = [Mode::Reals, Mode::Special, Mode::Ints];

    let mut long: Vec<(Tm, String)> = vec![];
    let maps = all_maps();
    // 0. long vectors (thorough): random lengths up to 1e4 through a sample of forms; queued and spread over the shards
    {
        // (coverage audit: the quick tier draws four of these too -- one of them up to 1e4 -- so that "random lengths up to 1e4" is
        //  reached by every run, not only by the thorough tier)
        for it in 0..(if thorough { 60 } else { 4 }) {
            let n = 41 + r.below(if it % 12 == 0 { 10_000 } else { 900 }) as usize;
            let t = it % 4;
            let (a, b) = (vals(&mut r, n, Mode::Reals), vals(&mut r, n, Mode::Reals));
            let s = val(&mut r, Mode::Reals);
            let f = r.below(4) as usize;
            let res = vec_vec(t, f, &a, &b);
            lq(&mut long, app("CVecOp", vec![raw(TRAITS[t]), raw(VV_FORMS[f].0), raw(VV_FORMS[f].1), app("OVec", vec![fl(&a)]), app("OVec", vec![fl(&b)]), outcome_list(&res)]), "long/vec-op-vec", true);
            let res = vec_scalar(t, f, &a, s);
            let (sf, of) = if f < 2 { (app("OVec", vec![fl(&a)]), app("OSc", vec![Tm::F(s)])) } else { (app("OSc", vec![Tm::F(s)]), app("OVec", vec![fl(&a)])) };
            lq(&mut long, app("CVecOp", vec![raw(TRAITS[t]), raw(VS_FORMS[f].0), raw(VS_FORMS[f].1), sf, of, outcome_list(&res)]), "long/vec-scalar", true);
            let x = Vector::new(a.clone());
            let e = *r.pick(&[2, 3, 4, -1]);
            let res = catch(move || x.powi(e).v);
            lq(&mut long, app("CVecPowi", vec![fl(&a), Tm::Z(e as i64), outcome_list(&res)]), "long/powi", true);
            let res = run_red(0, 0, &a);
            lq(&mut long, app("CRed", vec![raw("RSum"), Tm::Nat(0), fl(&a), libm_table(&crate::libm::Table::default()), outcome_list(&res)]), "long/sum", true);
            let (x, y) = (a.clone(), b.clone());
            let res = catch(move || vec![dot(&x, &y)]);
            lq(&mut long, app("CDot", vec![fl(&a), fl(&b), outcome_list(&res)]), "long/dot", true);
            if n <= 1500 {
                let (name, vm, _, sm, mode, tn) = maps[it % 29];
                let a = vals(&mut r, n, mode);
                let tb = scalar_table(sm, tn, &a);
                let x = Vector::new(a.clone());
                let res = catch(|| vm(&x).v);
                lq(&mut long, app("CVecMap", vec![raw(name), fl(&a), libm_table(&tb), outcome_list(&res)]), "long/map", true);
                // the other reductions at this length (free function / Vector method alternately); log-domain inputs shifted far out
                let mut al = vals(&mut r, n, Mode::Reals);
                let sh = [0.0, 700.0, -700.0, 1e300][it % 4]; for x in al.iter_mut() { *x += sh; }
                for k in [2usize, 4, 5] {
                    let v = if k == 2 { &a } else { &al };
                    crate::libm::start();
                    let res = run_red(k, it % 2, v);
                    let t = crate::libm::stop();
                    lq(&mut long, app("CRed", vec![raw(REDS[k]), Tm::Nat((it % 2) as u64), fl(v), libm_table(&t), outcome_list(&res)]), &format!("long/{}", REDS[k]), true);
                }
                let ap: Vec<f64> = (0..n).map(|_| { let m = r.uniform(-0.5, 0.5).exp(); if r.coin(0.5) { m } else { -m } }).collect();
                let res = run_red(1, it % 2, &ap);
                lq(&mut long, app("CRed", vec![raw("RProd"), Tm::Nat((it % 2) as u64), fl(&ap), libm_table(&crate::libm::Table::default()), outcome_list(&res)]), "long/RProd", true);
            }
        }
    }
    let mut tick = 0usize;
    // 1. Vector operator rows: every length 0..=40 x 4 operators x every form (thorough: once per value mode)
    let reps = if thorough { 3 } else { 1 };
    for rep in 0..reps { for &n in &lengths(thorough, 40, &mut r) { for t in 0..4 {
        spread(&mut cs, &mut long, &mut tick);
        let md = modes[(n + t + rep) % 3];
        let (a, b) = (vals(&mut r, n, md), vals(&mut r, n, md));
        let s = val(&mut r, md);
        let nt = nontrivial(n, &[&a, &b]);
        for f in 0..4 {
            let res = vec_vec(t, f, &a, &b);
            cs.push(app("CVecOp", vec![raw(TRAITS[t]), raw(VV_FORMS[f].0), raw(VV_FORMS[f].1), app("OVec", vec![fl(&a)]), app("OVec", vec![fl(&b)]), outcome_list(&res)]), "vec-op-vec", nt);
            let res = vec_scalar(t, f, &a, s);
            let (sf, of) = if f < 2 { (app("OVec", vec![fl(&a)]), app("OSc", vec![Tm::F(s)])) } else { (app("OSc", vec![Tm::F(s)]), app("OVec", vec![fl(&a)])) };
            cs.push(app("CVecOp", vec![raw(TRAITS[t]), raw(VS_FORMS[f].0), raw(VS_FORMS[f].1), sf, of, outcome_list(&res)]), if f < 2 { "vec-op-scalar" } else { "scalar-op-vec" }, nt);
        }
        for f in 0..2 {
            let res = vec_vec_assign(t, f, &a, &b);
            cs.push(app("CVecOp", vec![raw(ATRAITS[t]), raw("TyVector"), raw(if f == 0 { "TyVector" } else { "TyRefVector" }), app("OVec", vec![fl(&a)]), app("OVec", vec![fl(&b)]), outcome_list(&res)]), "vec-assign-vec", nt);
        }
        let res = vec_scalar_assign(t, &a, s);
        cs.push(app("CVecOp", vec![raw(ATRAITS[t]), raw("TyVector"), raw("TyF64"), app("OVec", vec![fl(&a)]), app("OSc", vec![Tm::F(s)]), outcome_list(&res)]), "vec-assign-scalar", nt);
        // length mismatch: must panic
        if n % 3 == 0 || thorough {
            let k = n + 1 + r.below(9) as usize; let b2 = vals(&mut r, k, Mode::Ints);
            let (a2, b2) = if r.coin(0.5) { (a.clone(), b2) } else { (b2, a.clone()) };
            let f = r.below(4) as usize;
            let res = vec_vec(t, f, &a2, &b2);
            cs.push(app("CVecOp", vec![raw(TRAITS[t]), raw(VV_FORMS[f].0), raw(VV_FORMS[f].1), app("OVec", vec![fl(&a2)]), app("OVec", vec![fl(&b2)]), outcome_list(&res)]), "malformed/vec-length-mismatch", res.is_err());
            let f = r.below(2) as usize;
            let res = vec_vec_assign(t, f, &a2, &b2);
            cs.push(app("CVecOp", vec![raw(ATRAITS[t]), raw("TyVector"), raw(if f == 0 { "TyVector" } else { "TyRefVector" }), app("OVec", vec![fl(&a2)]), app("OVec", vec![fl(&b2)]), outcome_list(&res)]), "malformed/vec-length-mismatch", res.is_err());
        }
    }}}
    // 2. Matrix rows: sizes 1..=40 (every residue), a few shapes per size
    let msizes: Vec<usize> = if thorough { (1..=40).collect() } else { (1..=18).chain([24, 31, 32, 33, 40]).collect() };
    for rep in 0..reps { for &n in &msizes { for (si, &(rr, cc)) in shapes_of(n).iter().enumerate() { for t in 0..4 {
        if !thorough && si > 0 && (n + t) % 2 == 0 { continue; }
        spread(&mut cs, &mut long, &mut tick);
        let md = modes[(n + t + si + rep) % 3];
        let (a, b) = (vals(&mut r, n, md), vals(&mut r, n, md));
        let s = val(&mut r, md);
        let nt = nontrivial(n, &[&a, &b]);
        let (m1, m2) = (mk(rr, cc, &a), mk(rr, cc, &b));
        for f in 0..4 {
            let res = mat_scalar(t, f, &m1, s);
            let (sf, of) = if f < 2 { (app("MMat", vec![mat_tm(rr, cc, &a)]), app("MSc", vec![Tm::F(s)])) } else { (app("MSc", vec![Tm::F(s)]), app("MMat", vec![mat_tm(rr, cc, &a)])) };
            cs.push(app("CMatOp", vec![raw(TRAITS[t]), raw(MS_FORMS[f].0), raw(MS_FORMS[f].1), sf, of, outcome_list(&res)]), if f < 2 { "mat-op-scalar" } else { "scalar-op-mat" }, nt);
            let res = mat_mat(t, f, &m1, &m2);
            cs.push(app("CMatBin", vec![raw(TOKS[t]), Tm::Nat(f as u64), mat_tm(rr, cc, &a), mat_tm(rr, cc, &b), outcome_list(&res)]), "mat-op-mat", nt);
        }
        for f in 0..2 {
            let res = mat_mat_assign(t, f, &m1, &m2);
            cs.push(app("CMatOp", vec![raw(ATRAITS[t]), raw("TyMatrix"), raw(if f == 0 { "TyMatrix" } else { "TyRefMatrix" }), app("MMat", vec![mat_tm(rr, cc, &a)]), app("MMat", vec![mat_tm(rr, cc, &b)]), outcome_list(&res)]), "mat-assign-mat", nt);
        }
        let res = mat_scalar_assign(t, &m1, s);
        cs.push(app("CMatOp", vec![raw(ATRAITS[t]), raw("TyMatrix"), raw("TyF64"), app("MMat", vec![mat_tm(rr, cc, &a)]), app("MSc", vec![Tm::F(s)]), outcome_list(&res)]), "mat-assign-scalar", nt);
        // shape mismatch: same size but transposed shape (assign must panic; Matrix op Matrix broadcasts or panics), or another size
        if (rr != cc && (n % 2 == 0 || thorough)) || n % 5 == 0 {
            let (r2, c2, b2) = if rr != cc && r.coin(0.6) { (cc, rr, b.clone()) } else { let k = n + 1 + r.below(4) as usize; (1, k, vals(&mut r, k, Mode::Ints)) };
            let m3 = mk(r2, c2, &b2);
            let f = r.below(2) as usize;
            let res = mat_mat_assign(t, f, &m1, &m3);
            cs.push(app("CMatOp", vec![raw(ATRAITS[t]), raw("TyMatrix"), raw(if f == 0 { "TyMatrix" } else { "TyRefMatrix" }), app("MMat", vec![mat_tm(rr, cc, &a)]), app("MMat", vec![mat_tm(r2, c2, &b2)]), outcome_list(&res)]), "malformed/mat-shape-mismatch", res.is_err());
            let f = r.below(4) as usize;
            let res = mat_mat(t, f, &m1, &m3);
            cs.push(app("CMatBin", vec![raw(TOKS[t]), Tm::Nat(f as u64), mat_tm(rr, cc, &a), mat_tm(r2, c2, &b2), outcome_list(&res)]), "malformed/mat-shape-mismatch", res.is_err());
        }
    }}}}
    // 2a. (coverage audit) shapes that `shapes_of` never yields: squares of composite order and tall non-vector shapes; every operator form,
    //     negation, a map, powi, powf and both infinity norms on them
    { let extra: Vec<(usize, usize)> = if thorough { (1..=40usize).flat_map(|n| { let known = shapes_of(n); shapes_all(n).into_iter().filter(move |s| !known.contains(s)) }).collect() }
                                       else { vec![(4, 3), (3, 4), (4, 4), (6, 6), (18, 2)] };
      for (si, &(rr, cc)) in extra.iter().enumerate() {
        let n = rr * cc;
        for t in 0..4 {
            spread(&mut cs, &mut long, &mut tick);
            let md = modes[(n + t + si) % 3];
            let (a, b) = (vals(&mut r, n, md), vals(&mut r, n, md));
            let s = val(&mut r, md);
            let nt = nontrivial(n, &[&a, &b]);
            let (m1, m2) = (mk(rr, cc, &a), mk(rr, cc, &b));
            for f in 0..4 {
                let res = mat_scalar(t, f, &m1, s);
                let (sf, of) = if f < 2 { (app("MMat", vec![mat_tm(rr, cc, &a)]), app("MSc", vec![Tm::F(s)])) } else { (app("MSc", vec![Tm::F(s)]), app("MMat", vec![mat_tm(rr, cc, &a)])) };
                cs.push(app("CMatOp", vec![raw(TRAITS[t]), raw(MS_FORMS[f].0), raw(MS_FORMS[f].1), sf, of, outcome_list(&res)]), if f < 2 { "mat-op-scalar" } else { "scalar-op-mat" }, nt);
                let res = mat_mat(t, f, &m1, &m2);
                cs.push(app("CMatBin", vec![raw(TOKS[t]), Tm::Nat(f as u64), mat_tm(rr, cc, &a), mat_tm(rr, cc, &b), outcome_list(&res)]), "mat-op-mat", nt);
            }
            for f in 0..2 {
                let res = mat_mat_assign(t, f, &m1, &m2);
                cs.push(app("CMatOp", vec![raw(ATRAITS[t]), raw("TyMatrix"), raw(if f == 0 { "TyMatrix" } else { "TyRefMatrix" }), app("MMat", vec![mat_tm(rr, cc, &a)]), app("MMat", vec![mat_tm(rr, cc, &b)]), outcome_list(&res)]), "mat-assign-mat", nt);
            }
            let res = mat_scalar_assign(t, &m1, s);
            cs.push(app("CMatOp", vec![raw(ATRAITS[t]), raw("TyMatrix"), raw("TyF64"), app("MMat", vec![mat_tm(rr, cc, &a)]), app("MSc", vec![Tm::F(s)]), outcome_list(&res)]), "mat-assign-scalar", nt);
            // same size, another factorisation: only the shape assertion can reject it
            let others: Vec<(usize, usize)> = shapes_all(n).into_iter().filter(|s| *s != (rr, cc)).collect();
            let (r2, c2) = others[(si + t) % others.len()];
            let m3 = mk(r2, c2, &b);
            let res = mat_mat_assign(t, t % 2, &m1, &m3);
            cs.push(app("CMatOp", vec![raw(ATRAITS[t]), raw("TyMatrix"), raw(if t % 2 == 0 { "TyMatrix" } else { "TyRefMatrix" }), app("MMat", vec![mat_tm(rr, cc, &a)]), app("MMat", vec![mat_tm(r2, c2, &b)]), outcome_list(&res)]), "malformed/mat-shape-mismatch", res.is_err());
            let res = mat_mat(t, t, &m1, &m3);
            cs.push(app("CMatBin", vec![raw(TOKS[t]), Tm::Nat(t as u64), mat_tm(rr, cc, &a), mat_tm(r2, c2, &b), outcome_list(&res)]), "malformed/mat-shape-mismatch", res.is_err());
        }
        let a = vals(&mut r, n, Mode::Special);
        let nt = nontrivial(n, &[&a]);
        let m = mk(rr, cc, &a); let res = catch(move || mat_out(&(-m)));
        cs.push(app("CMatNeg", vec![mat_tm(rr, cc, &a), outcome_list(&res)]), "neg/matrix", nt);
        let (name, _vm, mm, sm, mode, tn) = maps[si % 29];
        let am = vals(&mut r, n, mode);
        let tb = scalar_table(sm, tn, &am);
        let m = mk(rr, cc, &am); let res = catch(|| mat_out(&mm(&m)));
        cs.push(app("CMatMap", vec![raw(name), mat_tm(rr, cc, &am), libm_table(&tb), outcome_list(&res)]), &format!("map/{}", name), nontrivial(n, &[&am]));
        for e in [2i32, 3, -2] {
            let m = mk(rr, cc, &a); let res = catch(move || mat_out(&m.powi(e)));
            cs.push(app("CMatPowi", vec![mat_tm(rr, cc, &a), Tm::Z(e as i64), outcome_list(&res)]), "powi/matrix", nt);
        }
        let ar = vals(&mut r, n, Mode::Reals);
        let x = ar.clone(); let res = catch(move || vec![inf_norm(&x, rr)]);
        cs.push(app("CInfNorm", vec![fl(&ar), Tm::Nat(rr as u64), outcome_list(&res)]), "reduce/inf_norm", true);
        let m = mk(rr, cc, &ar); let res = catch(move || vec![m.inf_norm()]);
        cs.push(app("CMatInfNorm", vec![mat_tm(rr, cc, &ar), outcome_list(&res)]), "reduce/Matrix::inf_norm", true);
      }
    }
    // 2a'. (coverage audit) every ordered pair of special values through the operators: element against element (the 14 x 14 pairs as one
    //      vector of length 196 and as the 14 x 14 Matrix), element against every special scalar (scalar on either side, op-assign)
    { let k = SPECIALS.len();
      let a: Vec<f64> = (0..k * k).map(|i| SPECIALS[i / k]).collect();
      let b: Vec<f64> = (0..k * k).map(|i| SPECIALS[i % k]).collect();
      for t in 0..4 {
          let f = t;
          let res = vec_vec(t, f, &a, &b);
          cs.push(app("CVecOp", vec![raw(TRAITS[t]), raw(VV_FORMS[f].0), raw(VV_FORMS[f].1), app("OVec", vec![fl(&a)]), app("OVec", vec![fl(&b)]), outcome_list(&res)]), "specials/vec-op-vec", true);
          let res = vec_vec_assign(t, t % 2, &a, &b);
          cs.push(app("CVecOp", vec![raw(ATRAITS[t]), raw("TyVector"), raw(if t % 2 == 0 { "TyVector" } else { "TyRefVector" }), app("OVec", vec![fl(&a)]), app("OVec", vec![fl(&b)]), outcome_list(&res)]), "specials/vec-assign-vec", true);
          let (m1, m2) = (mk(k, k, &a), mk(k, k, &b));
          let res = mat_mat(t, 3 - f, &m1, &m2);
          cs.push(app("CMatBin", vec![raw(TOKS[t]), Tm::Nat((3 - f) as u64), mat_tm(k, k, &a), mat_tm(k, k, &b), outcome_list(&res)]), "specials/mat-op-mat", true);
          for (j, &s) in SPECIALS.iter().enumerate() {
              let f = (j + t) % 4;
              let res = vec_scalar(t, f, &SPECIALS, s);
              let (sf, of) = if f < 2 { (app("OVec", vec![fl(&SPECIALS)]), app("OSc", vec![Tm::F(s)])) } else { (app("OSc", vec![Tm::F(s)]), app("OVec", vec![fl(&SPECIALS)])) };
              cs.push(app("CVecOp", vec![raw(TRAITS[t]), raw(VS_FORMS[f].0), raw(VS_FORMS[f].1), sf, of, outcome_list(&res)]), "specials/vec-scalar", true);
              let f = (j + t + 2) % 4;
              let m = mk(2, 7, &SPECIALS);
              let res = mat_scalar(t, f, &m, s);
              let (sf, of) = if f < 2 { (app("MMat", vec![mat_tm(2, 7, &SPECIALS)]), app("MSc", vec![Tm::F(s)])) } else { (app("MSc", vec![Tm::F(s)]), app("MMat", vec![mat_tm(2, 7, &SPECIALS)])) };
              cs.push(app("CMatOp", vec![raw(TRAITS[t]), raw(MS_FORMS[f].0), raw(MS_FORMS[f].1), sf, of, outcome_list(&res)]), "specials/mat-scalar", true);
              if j % 2 == t % 2 {
                  let res = vec_scalar_assign(t, &SPECIALS, s);
                  cs.push(app("CVecOp", vec![raw(ATRAITS[t]), raw("TyVector"), raw("TyF64"), app("OVec", vec![fl(&SPECIALS)]), app("OSc", vec![Tm::F(s)]), outcome_list(&res)]), "specials/vec-assign-scalar", true);
              } else {
                  let res = mat_scalar_assign(t, &m, s);
                  cs.push(app("CMatOp", vec![raw(ATRAITS[t]), raw("TyMatrix"), raw("TyF64"), app("MMat", vec![mat_tm(2, 7, &SPECIALS)]), app("MSc", vec![Tm::F(s)]), outcome_list(&res)]), "specials/mat-assign-scalar", true);
              }
          }
      }
      // powi / powf: the extreme exponents on the special values
      for &e in &[2i32, 3, -1, 0, i32::MAX, i32::MIN + 1, i32::MIN] {
          let x = Vector::new(SPECIALS.to_vec());
          let res = catch(move || x.powi(e).v);
          cs.push(app("CVecPowi", vec![fl(&SPECIALS), Tm::Z(e as i64), outcome_list(&res)]), "specials/powi", true);
          let m = mk(7, 2, &SPECIALS);
          let res = catch(move || mat_out(&m.powi(e)));
          cs.push(app("CMatPowi", vec![mat_tm(7, 2, &SPECIALS), Tm::Z(e as i64), outcome_list(&res)]), "specials/powi", true);
      }
      for &p in &[f64::INFINITY, f64::NEG_INFINITY, -0.0, 1.0, -1.0, 5e-324, 1.7976931348623157e308, f64::NAN, 0.5, 2.0, 3.0] {
          crate::libm::start();
          for x in &SPECIALS { std::hint::black_box(std::hint::black_box(*x).powf(std::hint::black_box(p))); }
          let t = crate::libm::stop();
          let x = Vector::new(SPECIALS.to_vec());
          let res = catch(move || x.powf(p).v);
          cs.push(app("CVecPowf", vec![fl(&SPECIALS), Tm::F(p), libm_table(&t), outcome_list(&res)]), "specials/powf", true);
          let m = mk(2, 7, &SPECIALS);
          let res = catch(move || mat_out(&m.powf(p)));
          cs.push(app("CMatPowf", vec![mat_tm(2, 7, &SPECIALS), Tm::F(p), libm_table(&t), outcome_list(&res)]), "specials/powf", true);
      }
    }
    // 2b. the empty Matrix (0 x 0, as built by Matrix::empty()): every form
    for t in 0..4 {
        let e: Vec<f64> = vec![];
        let (m1, m2) = (mk(0, 0, &e), mk(0, 0, &e));
        for f in 0..4 {
            let res = mat_scalar(t, f, &m1, 2.0);
            let (sf, of) = if f < 2 { (app("MMat", vec![mat_tm(0, 0, &e)]), app("MSc", vec![Tm::F(2.0)])) } else { (app("MSc", vec![Tm::F(2.0)]), app("MMat", vec![mat_tm(0, 0, &e)])) };
            cs.push(app("CMatOp", vec![raw(TRAITS[t]), raw(MS_FORMS[f].0), raw(MS_FORMS[f].1), sf, of, outcome_list(&res)]), "empty-matrix", true);
            let res = mat_mat(t, f, &m1, &m2);
            cs.push(app("CMatBin", vec![raw(TOKS[t]), Tm::Nat(f as u64), mat_tm(0, 0, &e), mat_tm(0, 0, &e), outcome_list(&res)]), "empty-matrix", true);
        }
        for f in 0..2 {
            let res = mat_mat_assign(t, f, &m1, &m2);
            cs.push(app("CMatOp", vec![raw(ATRAITS[t]), raw("TyMatrix"), raw(if f == 0 { "TyMatrix" } else { "TyRefMatrix" }), app("MMat", vec![mat_tm(0, 0, &e)]), app("MMat", vec![mat_tm(0, 0, &e)]), outcome_list(&res)]), "empty-matrix", true);
        }
        let res = mat_scalar_assign(t, &m1, 2.0);
        cs.push(app("CMatOp", vec![raw(ATRAITS[t]), raw("TyMatrix"), raw("TyF64"), app("MMat", vec![mat_tm(0, 0, &e)]), app("MSc", vec![Tm::F(2.0)]), outcome_list(&res)]), "empty-matrix", true);
    }
    { let e: Vec<f64> = vec![];
      let m = mk(0, 0, &e); let res = catch(move || mat_out(&(-m)));
      cs.push(app("CMatNeg", vec![mat_tm(0, 0, &e), outcome_list(&res)]), "empty-matrix", true);
      let m = mk(0, 0, &e); let res = catch(move || mat_out(&m.abs()));
      cs.push(app("CMatMap", vec![raw("UAbs"), mat_tm(0, 0, &e), libm_table(&crate::libm::Table::default()), outcome_list(&res)]), "empty-matrix", true);
      let m = mk(0, 0, &e); let res = catch(move || mat_out(&m.powi(2)));
      cs.push(app("CMatPowi", vec![mat_tm(0, 0, &e), Tm::Z(2), outcome_list(&res)]), "empty-matrix", true);
      // all 29 maps, more exponents, powf, Matrix::inf_norm, on Matrix::empty() itself
      for (name, _vm, mm, _sm, _mode, _tn) in maps.iter() {
          let m = Matrix::empty(); let res = catch(|| mat_out(&mm(&m)));
          cs.push(app("CMatMap", vec![raw(name), mat_tm(0, 0, &e), libm_table(&crate::libm::Table::default()), outcome_list(&res)]), "empty-matrix", true);
      }
      for &p in &[3i32, -1, 0, 7] {
          let m = Matrix::empty(); let res = catch(move || mat_out(&m.powi(p)));
          cs.push(app("CMatPowi", vec![mat_tm(0, 0, &e), Tm::Z(p as i64), outcome_list(&res)]), "empty-matrix", true);
      }
      let m = Matrix::empty(); let res = catch(move || mat_out(&m.powf(2.5)));
      cs.push(app("CMatPowf", vec![mat_tm(0, 0, &e), Tm::F(2.5), libm_table(&crate::libm::Table::default()), outcome_list(&res)]), "empty-matrix", true);
      let m = Matrix::empty(); let res = catch(move || vec![m.inf_norm()]);
      cs.push(app("CMatInfNorm", vec![mat_tm(0, 0, &e), outcome_list(&res)]), "empty-matrix", true);
      // 2c. degenerate shapes over no data (0 x c, r x 0: what reshape_mut(-1, c) / (r, -1) makes of the empty matrix;
      //     built here through the public fields): Matrix::new still refuses them, so the value forms panic
      for &(rr, cc) in &[(0usize, 3usize), (3, 0), (0, 1), (1, 0)] {
          for t in 0..4 { for f in 0..4 {
              let m1 = mk(rr, cc, &e);
              let res = mat_scalar(t, f, &m1, 2.0);
              let (sf, of) = if f < 2 { (app("MMat", vec![mat_tm(rr, cc, &e)]), app("MSc", vec![Tm::F(2.0)])) } else { (app("MSc", vec![Tm::F(2.0)]), app("MMat", vec![mat_tm(rr, cc, &e)])) };
              cs.push(app("CMatOp", vec![raw(TRAITS[t]), raw(MS_FORMS[f].0), raw(MS_FORMS[f].1), sf, of, outcome_list(&res)]), "malformed/degenerate-matrix", true);
              let res = mat_mat(t, f, &m1, &m1);
              cs.push(app("CMatBin", vec![raw(TOKS[t]), Tm::Nat(f as u64), mat_tm(rr, cc, &e), mat_tm(rr, cc, &e), outcome_list(&res)]), "malformed/degenerate-matrix", true);
              let m0 = mk(0, 0, &e);
              let res = mat_mat(t, f, &m1, &m0);
              cs.push(app("CMatBin", vec![raw(TOKS[t]), Tm::Nat(f as u64), mat_tm(rr, cc, &e), mat_tm(0, 0, &e), outcome_list(&res)]), "malformed/degenerate-matrix", true);
              let res = mat_mat(t, f, &m0, &m1);
              cs.push(app("CMatBin", vec![raw(TOKS[t]), Tm::Nat(f as u64), mat_tm(0, 0, &e), mat_tm(rr, cc, &e), outcome_list(&res)]), "malformed/degenerate-matrix", true);
          }
          let m1 = mk(rr, cc, &e);
          let res = mat_scalar_assign(t, &m1, 2.0);
          cs.push(app("CMatOp", vec![raw(ATRAITS[t]), raw("TyMatrix"), raw("TyF64"), app("MMat", vec![mat_tm(rr, cc, &e)]), app("MSc", vec![Tm::F(2.0)]), outcome_list(&res)]), "malformed/degenerate-matrix", true);
          }
          let m = mk(rr, cc, &e); let res = catch(move || mat_out(&(-m)));
          cs.push(app("CMatNeg", vec![mat_tm(rr, cc, &e), outcome_list(&res)]), "malformed/degenerate-matrix", true);
          let m = mk(rr, cc, &e); let res = catch(move || mat_out(&m.exp()));
          cs.push(app("CMatMap", vec![raw("UExp"), mat_tm(rr, cc, &e), libm_table(&crate::libm::Table::default()), outcome_list(&res)]), "malformed/degenerate-matrix", true);
      }
      // the empty matrix against non-empty operands: 1 x 1 broadcasts to the empty matrix, everything else panics
      for t in 0..4 { for &(rr, cc) in &[(1usize, 1usize), (1, 3), (3, 1), (2, 2)] {
          let b: Vec<f64> = (0..rr * cc).map(|i| 1.5 + i as f64).collect();
          let (m0, m1) = (mk(0, 0, &e), mk(rr, cc, &b));
          for f in 0..4 {
              let res = mat_mat(t, f, &m0, &m1);
              cs.push(app("CMatBin", vec![raw(TOKS[t]), Tm::Nat(f as u64), mat_tm(0, 0, &e), mat_tm(rr, cc, &b), outcome_list(&res)]), "empty-matrix", true);
              let res = mat_mat(t, f, &m1, &m0);
              cs.push(app("CMatBin", vec![raw(TOKS[t]), Tm::Nat(f as u64), mat_tm(rr, cc, &b), mat_tm(0, 0, &e), outcome_list(&res)]), "empty-matrix", true);
          }
          for f in 0..2 {
              let res = mat_mat_assign(t, f, &m0, &m1);
              cs.push(app("CMatOp", vec![raw(ATRAITS[t]), raw("TyMatrix"), raw(if f == 0 { "TyMatrix" } else { "TyRefMatrix" }), app("MMat", vec![mat_tm(0, 0, &e)]), app("MMat", vec![mat_tm(rr, cc, &b)]), outcome_list(&res)]), "empty-matrix", true);
          }
      }}
    }
    // 3. negation
    for &n in &lengths(thorough, 17, &mut r) {
        let a = vals(&mut r, n, Mode::Special);
        let x = Vector::new(a.clone());
        let res = catch(move || (-x).v);
        cs.push(app("CVecNeg", vec![fl(&a), outcome_list(&res)]), "neg/vector", nontrivial(n, &[&a]));
        if n >= 1 { for &(rr, cc) in &shapes_of(n) {
            let m = mk(rr, cc, &a);
            let res = catch(move || mat_out(&(-m)));
            cs.push(app("CMatNeg", vec![mat_tm(rr, cc, &a), outcome_list(&res)]), "neg/matrix", nontrivial(n, &[&a]));
        }}
    }
    // 4. the 29 maps x Vector / Matrix x lengths; elements in the map's domain, then special values
    let dense = if thorough { 40 } else { 17 };
    for (name, vm, mm, sm, mode, tn) in maps.iter() { for &n in &lengths(thorough, dense, &mut r) { for pass in 0..2 {
        if pass == 1 && !(thorough || n % 4 == 1) { continue; }
        spread(&mut cs, &mut long, &mut tick);
        let a = vals(&mut r, n, if pass == 0 { *mode } else { Mode::Special });
        let t = scalar_table(*sm, *tn, &a);
        let nt = nontrivial(n, &[&a]);
        let x = Vector::new(a.clone());
        let res = catch(|| vm(&x).v);
        cs.push(app("CVecMap", vec![raw(name), fl(&a), libm_table(&t), outcome_list(&res)]), &format!("map/{}", name), nt);
        if n >= 1 && (thorough || pass == 0) {
            let sh = shapes_of(n); let (rr, cc) = sh[sh.len() - 1];
            let m = mk(rr, cc, &a);
            let res = catch(|| mat_out(&mm(&m)));
            cs.push(app("CMatMap", vec![raw(name), mat_tm(rr, cc, &a), libm_table(&t), outcome_list(&res)]), &format!("map/{}", name), nt);
        }
    }}}
    // 5. powi (exponents -3..=5 and a few large ones) and powf
    for &n in &lengths(thorough, if thorough { 40 } else { 19 }, &mut r) {
        let mut exps: Vec<i32> = (-3..=5).collect();
        exps.extend([7, 10, -8, 31, 64, i32::MAX, i32::MIN + 1, i32::MIN]);
        for &e in &exps {
            if !thorough && !(2..=3).contains(&e) && (n as i32 + e).rem_euclid(3) != 0 { continue; }
            let a = vals(&mut r, n, if (n as i32 + e) % 2 == 0 { Mode::Reals } else { Mode::Special });
            let nt = nontrivial(n, &[&a]);
            let x = Vector::new(a.clone());
            let res = catch(move || x.powi(e).v);
            cs.push(app("CVecPowi", vec![fl(&a), Tm::Z(e as i64), outcome_list(&res)]), &format!("powi/{}", if e == 2 || e == 3 { e.to_string() } else { "other".into() }), nt);
            if n >= 1 && (thorough || e == 2 || e == 3) {
                let sh = shapes_of(n); let (rr, cc) = sh[sh.len() - 1];
                let m = mk(rr, cc, &a);
                let res = catch(move || mat_out(&m.powi(e)));
                cs.push(app("CMatPowi", vec![mat_tm(rr, cc, &a), Tm::Z(e as i64), outcome_list(&res)]), "powi/matrix", nt);
            }
        }
        for &p in &[2.0, 3.0, 0.5, -1.5, 0.0, f64::NAN, 1e3] {
            if !thorough && ((n as f64 + p * 2.0) as i64).rem_euclid(3) != 0 && p != 2.0 { continue; }
            let a = vals(&mut r, n, if n % 2 == 0 { Mode::Pos } else { Mode::Special });
            crate::libm::start();
            for x in &a { std::hint::black_box(std::hint::black_box(*x).powf(std::hint::black_box(p))); }
            let t = crate::libm::stop();
            let x = Vector::new(a.clone());
            let res = catch(move || x.powf(p).v);
            cs.push(app("CVecPowf", vec![fl(&a), Tm::F(p), libm_table(&t), outcome_list(&res)]), "powf", nontrivial(n, &[&a]));
            if n >= 1 && n % 3 == 0 {
                let sh = shapes_of(n); let (rr, cc) = sh[sh.len() - 1];
                let m = mk(rr, cc, &a);
                let res = catch(move || mat_out(&m.powf(p)));
                cs.push(app("CMatPowf", vec![mat_tm(rr, cc, &a), Tm::F(p), libm_table(&t), outcome_list(&res)]), "powf", nontrivial(n, &[&a]));
            }
        }
    }
    // 6. reductions
    for &n in &lengths(thorough, 40, &mut r) { for k in 0..6 { for form in 0..3 {
        if form == 2 && (k >= 4 || n == 0) { continue; }
        if !thorough && form > 0 && (n + k) % 4 != 0 { continue; }
        let md = if k >= 4 { if n % 3 == 0 { Mode::Special } else { Mode::Reals } } else { modes[(n + k + form) % 3] };
        let mut a = vals(&mut r, n, md);
        if k >= 4 && n % 3 == 1 { let sh = *r.pick(&[700.0, -700.0, 1e6, -1e300, 1.7e308]); for x in a.iter_mut() { *x += sh; } }
        // the table of exp/ln as the implementation evaluates them is what the scalar path would evaluate too
        crate::libm::start();
        let res = run_red(k, form, &a);
        let t = crate::libm::stop();
        cs.push(app("CRed", vec![raw(REDS[k]), Tm::Nat(form as u64), fl(&a), libm_table(&t), outcome_list(&res)]), &format!("reduce/{}", REDS[k]), nontrivial(n, &[&a]));
    }}
        let md = modes[n % 3];
        let (a, b) = (vals(&mut r, n, md), vals(&mut r, n, md));
        let (x, y) = (a.clone(), b.clone());
        let res = catch(move || vec![dot(&x, &y)]);
        cs.push(app("CDot", vec![fl(&a), fl(&b), outcome_list(&res)]), "reduce/dot", nontrivial(n, &[&a, &b]));
        if n % 4 == 0 {
            let k = n + 1 + r.below(8) as usize; let b2 = vals(&mut r, k, Mode::Ints);
            let (x, y) = (a.clone(), b2.clone());
            let res = catch(move || vec![dot(&x, &y)]);
            cs.push(app("CDot", vec![fl(&a), fl(&b2), outcome_list(&res)]), "malformed/dot-length-mismatch", res.is_err());
        }
    }
    // 7. infinity norm: free function (any nrows, incl. 0 and non-divisors) and Matrix method
    for &n in &lengths(thorough, 30, &mut r) {
        let a = vals(&mut r, n, if n % 4 == 0 { Mode::Special } else { Mode::Reals });
        let mut rows: Vec<usize> = if n >= 1 { shapes_of(n).iter().map(|s| s.0).collect() } else { vec![] };
        rows.push(0); rows.push(n + 1); if n >= 3 { rows.push(n - 1); }
        for nr in rows {
            let x = a.clone();
            let res = catch(move || vec![inf_norm(&x, nr)]);
            cs.push(app("CInfNorm", vec![fl(&a), Tm::Nat(nr as u64), outcome_list(&res)]), if res.is_ok() { "reduce/inf_norm" } else { "malformed/inf_norm" }, n >= 2);
        }
        if n >= 1 { for &(rr, cc) in &shapes_of(n) {
            let m = mk(rr, cc, &a);
            let res = catch(move || vec![m.inf_norm()]);
            cs.push(app("CMatInfNorm", vec![mat_tm(rr, cc, &a), outcome_list(&res)]), "reduce/Matrix::inf_norm", n >= 2);
        }}
    }
    while let Some((t, tag)) = long.pop() { cs.push(t, &tag, true); }
    cs.write(outdir, if thorough { 250 } else { 700 },
             "every length 0..=40 x 4 operators x every Vector operator form (op, scalar-left, scalar-right, op-assign; owned and borrowed) and the Matrix forms on every size 1..=40 (quick: 1..=18 and 24,31,32,33,40) with several shapes (1 x n, n x 1, one proper factorisation; plus squares of composite order and tall shapes: 4x3, 3x4, 4x4, 6x6, 18x2 at quick, every remaining factorisation of every size 1..=40 at thorough); every ordered pair of the 14 special values through every operator (element-element as a length-196 vector and a 14x14 Matrix, element-scalar on either side, op-assign); random lengths 41..10040 (4 draws at quick, 60 at thorough) through vec-op-vec, vec-scalar, powi, sum, dot, a map and the other reductions; the 29 maps + powi (-3..=5 and extreme exponents incl. i32::MAX, i32::MIN) + powf (incl. +-inf, -0, NaN exponents) on Vector and Matrix; reductions (free function, Vector method, Matrix method), dot, both infinity norms; malformed stream (length / shape mismatches, nrows = 0 or not dividing the length); value modes: reals over 12 binades, small integers, specials (+-0, +-inf, NaN, subnormals, extremes, random bit patterns); non-trivial = length >= 9 with a non-empty remainder (n mod 8 <> 0), or a special value present, or a panic (malformed stream); distinct by hash of the case term");
}

// ---------------------------------------------------------------------------------------------
// failure-search oracle: the property's statement against the implementation only
fn same(a: f64, b: f64) -> bool { a.to_bits() == b.to_bits() || (a.is_nan() && b.is_nan()) }
fn same_vec(a: &[f64], b: &[f64]) -> bool { a.len() == b.len() && a.iter().zip(b).all(|(x, y)| same(*x, *y)) }
fn sop(t: usize, x: f64, y: f64) -> f64 { match t { 0 => x + y, 1 => x - y, 2 => x * y, _ => x / y } }
const OPN: [&str; 4] = ["add", "sub", "mul", "div"];

/// error-free sum: (hi, lo) with hi + lo the exact sum accumulated in double-double
fn dd_sum(xs: impl Iterator<Item = f64>) -> f64 {
    let (mut hi, mut lo) = (0.0f64, 0.0f64);
    for x in xs {
        let s = hi + x; let bb = s - hi; let e = (hi - (s - bb)) + (x - bb);
        hi = s; lo += e;
    }
    hi + lo
}
/// Dekker product error without fma
fn two_prod(a: f64, b: f64) -> (f64, f64) {
    let p = a * b;
    let split = |x: f64| { let c = 134217729.0 * x; let h = c - (c - x); (h, x - h) };
    let ((ah, al), (bh, bl)) = (split(a), split(b));
    (p, ((ah * bh - p) + ah * bl + al * bh) + al * bl)
}

fn check_pos(out: &mut Vec<Finding>, class: &str, got: &Result<Vec<f64>, String>, want: &[f64], input: &str) {
    match got {
        Ok(g) => if !same_vec(g, want) {
            let i = g.iter().zip(want).position(|(x, y)| !same(*x, *y));
            out.push(Finding { class: class.into(), what: format!("result differs from the position-wise scalar operation (length {} vs {}, first differing position {:?}: got {:?}, scalar gives {:?})", g.len(), want.len(), i, i.map(|i| g[i]), i.map(|i| want[i])), input: input.into() });
        },
        Err(e) => out.push(Finding { class: format!("{}:panics", class), what: format!("panicked on valid operands: {}", e), input: input.into() }),
    }
}

pub fn oracle(tier: &str, seed: u64) -> (u64, Vec<Finding>) {
    let mut r = Rng::new(seed ^ 0xC04);
    let mut out = vec![]; let mut tried = 0u64;
    let iters = if tier == "thorough" { 6000 } else { 900 };
    let maps = all_maps();
    // --- the empty Matrix: the property includes empty operands; every form must return the empty result
    //     (class empty-matrix:value-form-panics: recorded as a finding on the original code, repaired by `fix:` in
    //     Matrix::reshape_mut; the class must stay silent on the repaired code and fires again if the fix is reverted)
    { let e: Vec<f64> = vec![];
      let mut bad: Vec<String> = vec![];
      let mut wrong: Vec<String> = vec![];
      crumb("empty matrix (0x0, Matrix::empty()) through every operator form");
      // the expected outcome: shape 0 x 0 and no data (a borrowed right operand of op-assign is reported too)
      let mut see = |res: Result<Vec<f64>, String>, what: String| {
          match res {
              Err(_) => bad.push(what),
              Ok(v) => if !((v.len() == 2 || v.len() == 4) && v.iter().all(|x| x.to_bits() == 0)) { wrong.push(format!("{} -> {:?}", what, v)) },
          }
      };
      for (src, m0) in [("Matrix::empty()", Matrix::empty()), ("Matrix { nrows: 0, ncols: 0, data: [] }", mk(0, 0, &e)), ("Matrix::default()", Matrix::default())] {
          for t in 0..4 {
              for f in 0..4 {
                  tried += 2;
                  see(mat_scalar(t, f, &m0, 2.0), format!("{} {} ({})", ["Matrix op f64", "&Matrix op f64", "f64 op Matrix", "f64 op &Matrix"][f], OPN[t], src));
                  see(mat_mat(t, f, &m0, &m0), format!("Matrix {} Matrix (ownership form {}, {})", OPN[t], f, src));
              }
              tried += 3;
              see(mat_mat_assign(t, 0, &m0, &m0), format!("Matrix {}= Matrix ({})", OPN[t], src));
              see(mat_mat_assign(t, 1, &m0, &m0), format!("Matrix {}= &Matrix ({})", OPN[t], src));
              see(mat_scalar_assign(t, &m0, 2.0), format!("Matrix {}= f64 ({})", OPN[t], src));
          }
          tried += 2;
          let m = m0.clone(); see(catch(move || mat_out(&(-m))), format!("-Matrix ({})", src));
          let m = m0.clone(); see(catch(move || mat_out(&m.powf(2.5))), format!("Matrix::powf ({})", src));
          for p in [2i32, 3, -1, 0, 7] { tried += 1; let m = m0.clone(); see(catch(move || mat_out(&m.powi(p))), format!("Matrix::powi({}) ({})", p, src)); }
          for (name, _vm, mm, _sm, _mode, _tn) in maps.iter() { tried += 1; let m = m0.clone(); see(catch(move || mat_out(&mm(&m))), format!("Matrix map {} ({})", name, src)); }
      }
      if !bad.is_empty() {
          out.push(Finding { class: "empty-matrix:value-form-panics".into(),
              what: format!("{} operator/map forms panic on the empty 0x0 Matrix instead of returning the empty result (e.g. {})", bad.len(), bad[..bad.len().min(4)].join("; ")),
              input: "Matrix::empty() (nrows = 0, ncols = 0, no data), scalar 2.0".into() });
      }
      if !wrong.is_empty() {
          out.push(Finding { class: "empty-matrix:wrong-result".into(),
              what: format!("{} operator/map forms return something other than the empty 0x0 matrix on the empty Matrix (e.g. {})", wrong.len(), wrong[..wrong.len().min(4)].join("; ")),
              input: "Matrix::empty() (nrows = 0, ncols = 0, no data), scalar 2.0".into() });
      } }
    for it in 0..iters {
        let n = if it < 82 { it / 2 } else if it % 50 == 0 { 41 + r.below(10_000) as usize } else { r.below(70) as usize };
        let md = *r.pick(&[Mode::Reals, Mode::Special, Mode::Ints]);
        let (a, b) = (vals(&mut r, n, md), vals(&mut r, n, md));
        let s = val(&mut r, md);
        let t = (it % 4) as usize;
        let f = r.below(4) as usize;
        // --- Vector op Vector / scalar forms
        let inp = format!("op={} form={} a={} b={} scalar={:e}", OPN[t], f, json_floats(&a), json_floats(&b), s); crumb(&inp);
        let want: Vec<f64> = (0..n).map(|i| sop(t, a[i], b[i])).collect();
        check_pos(&mut out, &format!("vec-op-vec:{}", OPN[t]), &vec_vec(t, f, &a, &b), &want, &inp); tried += 1;
        let want_vs: Vec<f64> = (0..n).map(|i| sop(t, a[i], s)).collect();
        let want_sv: Vec<f64> = (0..n).map(|i| sop(t, s, a[i])).collect();
        check_pos(&mut out, &format!("vec-op-scalar:{}", OPN[t]), &vec_scalar(t, f % 2, &a, s), &want_vs, &inp); tried += 1;
        check_pos(&mut out, &format!("scalar-op-vec:{}", OPN[t]), &vec_scalar(t, 2 + f % 2, &a, s), &want_sv, &inp); tried += 1;
        let mut w2 = want.clone(); if f % 2 == 1 { w2.extend_from_slice(&b); }
        check_pos(&mut out, &format!("vec-assign-vec:{}", OPN[t]), &vec_vec_assign(t, f % 2, &a, &b), &w2, &inp); tried += 1;
        check_pos(&mut out, &format!("vec-assign-scalar:{}", OPN[t]), &vec_scalar_assign(t, &a, s), &want_vs, &inp); tried += 1;
        // borrowed operands unchanged
        { let (x, y) = (Vector::new(a.clone()), Vector::new(b.clone()));
          let _ = catch(|| { let _z: Vector = binop!(t, &x, &y); let _w: Vector = binop!(t, &x, s); let _u: Vector = binop!(t, s, &x); });
          tried += 1;
          if !same_vec(&x.v, &a) || !same_vec(&y.v, &b) { out.push(Finding { class: "operand-modified".into(), what: "a borrowed operand changed".into(), input: inp.clone() }); } }
        // length mismatch must panic
        if it % 3 == 0 {
            let k = n + 1 + r.below(17) as usize; let b2 = vals(&mut r, k, Mode::Ints);
            let (p, q) = if r.coin(0.5) { (&a, &b2) } else { (&b2, &a) };
            let inp2 = format!("op={} a={} b={}", OPN[t], json_floats(p), json_floats(q)); crumb(&inp2);
            tried += 2;
            if let Ok(v) = vec_vec(t, f, p, q) { out.push(Finding { class: "vec-op-vec:length-mismatch-accepted".into(), what: format!("returned {} values for operands of lengths {} and {}", v.len(), p.len(), q.len()), input: inp2.clone() }); }
            if let Ok(v) = vec_vec_assign(t, f % 2, p, q) { out.push(Finding { class: "vec-assign-vec:length-mismatch-accepted".into(), what: format!("returned {} values for operands of lengths {} and {}", v.len(), p.len(), q.len()), input: inp2.clone() }); }
        }
        // --- Matrix forms
        if n >= 1 {
            let sh = shapes_of(n); let (rr, cc) = *r.pick(&sh);
            let (m1, m2) = (mk(rr, cc, &a), mk(rr, cc, &b));
            let inpm = format!("op={} form={} shape={}x{} a={} b={} scalar={:e}", OPN[t], f, rr, cc, json_floats(&a), json_floats(&b), s); crumb(&inpm);
            let shape = |w: &[f64]| { let mut o = vec![rr as f64, cc as f64]; o.extend_from_slice(w); o };
            check_pos(&mut out, &format!("mat-op-mat:{}", OPN[t]), &mat_mat(t, f, &m1, &m2), &shape(&want), &inpm); tried += 1;
            check_pos(&mut out, &format!("mat-op-scalar:{}", OPN[t]), &mat_scalar(t, f % 2, &m1, s), &shape(&want_vs), &inpm); tried += 1;
            check_pos(&mut out, &format!("scalar-op-mat:{}", OPN[t]), &mat_scalar(t, 2 + f % 2, &m1, s), &shape(&want_sv), &inpm); tried += 1;
            let mut w3 = shape(&want); if f % 2 == 1 { w3.extend(shape(&b)); }
            check_pos(&mut out, &format!("mat-assign-mat:{}", OPN[t]), &mat_mat_assign(t, f % 2, &m1, &m2), &w3, &inpm); tried += 1;
            check_pos(&mut out, &format!("mat-assign-scalar:{}", OPN[t]), &mat_scalar_assign(t, &m1, s), &shape(&want_vs), &inpm); tried += 1;
            let neg: Vec<f64> = a.iter().map(|x| -x).collect();
            let m = m1.clone();
            check_pos(&mut out, "neg:matrix", &catch(move || mat_out(&(-m))), &shape(&neg), &inpm); tried += 1;
            if rr != cc {
                let m3 = mk(cc, rr, &b); tried += 1;
                if let Ok(v) = mat_mat_assign(t, f % 2, &m1, &m3) { out.push(Finding { class: "mat-assign-mat:shape-mismatch-accepted".into(), what: format!("{}x{} op= {}x{} returned {:?}", rr, cc, cc, rr, &v[..2]), input: inpm.clone() }); }
                if rr > 1 && cc > 1 { tried += 1; if let Ok(v) = mat_mat(t, f, &m1, &m3) { out.push(Finding { class: "mat-op-mat:shape-mismatch-accepted".into(), what: format!("{}x{} op {}x{} returned {:?}", rr, cc, cc, rr, &v[..2]), input: inpm.clone() }); } }
            }
            // maps on the Matrix keep the shape
            let (name, _, mm, sm, mode, _) = maps[it % 29];
            let am = vals(&mut r, n, if it % 5 == 0 { Mode::Special } else { mode });
            let wantm: Vec<f64> = am.iter().map(|x| sm(*x)).collect();
            let m = mk(rr, cc, &am);
            let inpx = format!("map={} shape={}x{} a={}", name, rr, cc, json_floats(&am)); crumb(&inpx);
            check_pos(&mut out, &format!("map:{}", name), &catch(|| mat_out(&mm(&m))), &shape(&wantm), &inpx); tried += 1;
        }
        let neg: Vec<f64> = a.iter().map(|x| -x).collect();
        let x = Vector::new(a.clone());
        check_pos(&mut out, "neg:vector", &catch(move || (-x).v), &neg, &inp); tried += 1;
        // --- maps (kernel vs the scalar f64 method at each position)
        { let (name, vm, _, sm, mode, _) = maps[(it / 2) % 29];
          let am = vals(&mut r, n, if it % 4 == 0 { Mode::Special } else { mode });
          let wantm: Vec<f64> = am.iter().map(|x| sm(*x)).collect();
          let x = Vector::new(am.clone());
          let inpx = format!("map={} a={}", name, json_floats(&am)); crumb(&inpx);
          check_pos(&mut out, &format!("map:{}", name), &catch(|| vm(&x).v), &wantm, &inpx); tried += 1;
          if !same_vec(&x.v, &am) { out.push(Finding { class: "operand-modified".into(), what: "a map changed its operand".into(), input: format!("map={} a={}", name, json_floats(&am)) }); } }
        // --- powi / powf
        { let e = *r.pick(&[-3, -2, -1, 0, 1, 2, 3, 4, 5, 2, 3, 11, -7]);
          let ap = vals(&mut r, n, if it % 3 == 0 { Mode::Special } else { Mode::Reals });
          let inpx = format!("powi exponent={} a={}", e, json_floats(&ap)); crumb(&inpx);
          let wantp: Vec<f64> = ap.iter().map(|x| x.powi(e)).collect();
          let x = Vector::new(ap.clone());
          check_pos(&mut out, &format!("powi:{}", if e == 2 || e == 3 { e.to_string() } else { "other".into() }), &catch(move || x.powi(e).v), &wantp, &inpx); tried += 1;
          let p = *r.pick(&[2.0, 3.0, 0.5, -1.25, 0.0]);
          let inpx = format!("powf exponent={:e} a={}", p, json_floats(&ap)); crumb(&inpx);
          let wantp: Vec<f64> = ap.iter().map(|x| x.powf(p)).collect();
          let x = Vector::new(ap.clone());
          check_pos(&mut out, "powf", &catch(move || x.powf(p).v), &wantp, &inpx); tried += 1; }
        // --- reductions against compensated references, within the worst-case bound for the length
        if n <= 3000 {
            let ar = vals(&mut r, n, Mode::Reals); let br = vals(&mut r, n, Mode::Reals);
            let u = f64::EPSILON; // 2^-52 = 2u: twice the unit roundoff, so (n+2)*EPSILON dominates gamma_n
            let nn = n as f64 + 2.0;
            let inp = format!("a={} b={}", json_floats(&ar), json_floats(&br)); crumb(&inp);
            let (sref, sabs) = (dd_sum(ar.iter().copied()), ar.iter().map(|x| x.abs()).sum::<f64>());
            let got = sum(&ar); tried += 1;
            if (got - sref).abs() > nn * u * sabs { out.push(Finding { class: "sum:beyond-rounding-bound".into(), what: format!("sum = {:e}, exact sum = {:e}, bound {:e}", got, sref, nn * u * sabs), input: inp.clone() }); }
            let (mut dh, mut dabs) = (vec![], 0.0);
            for i in 0..n { let (p, e) = two_prod(ar[i], br[i]); dh.push(p); dh.push(e); dabs += p.abs(); }
            let dref = dd_sum(dh.iter().copied());
            let got = dot(&ar, &br); tried += 1;
            if (got - dref).abs() > (nn + 1.0) * u * dabs { out.push(Finding { class: "dot:beyond-rounding-bound".into(), what: format!("dot = {:e}, exact = {:e}, bound {:e}", got, dref, (nn + 1.0) * u * dabs), input: inp.clone() }); }
            let mut qh = vec![]; for i in 0..n { let (p, e) = two_prod(ar[i], ar[i]); qh.push(p); qh.push(e); }
            let nref = dd_sum(qh.iter().copied()).sqrt();
            let got = norm(&ar); tried += 1;
            if (got - nref).abs() > (nn + 2.0) * u * nref { out.push(Finding { class: "norm:beyond-rounding-bound".into(), what: format!("norm = {:e}, reference = {:e}", got, nref), input: inp.clone() }); }
            if n <= 60 {
                let ap = vals(&mut r, n, Mode::Pos);
                let lref = dd_sum(ap.iter().map(|x| x.ln()));
                crumb(&format!("prod a={}", json_floats(&ap)));
                let got = prod(&ap); tried += 1;
                if (got.ln() - lref).abs() > (nn + 4.0) * u * (1.0 + ap.iter().map(|x| x.ln().abs()).sum::<f64>()) { out.push(Finding { class: "prod:beyond-rounding-bound".into(), what: format!("ln(prod) = {:e}, sum of ln = {:e}", got.ln(), lref), input: format!("a={}", json_floats(&ap)) }); }
            }
            // reductions on data with infinities / overflowing prefixes: the IEEE result of adding (multiplying) the elements one after the other
            // (an infinite partial sum stays infinite; inf + (-inf) and 0 * inf are NaN) -- compared as classes: +inf / -inf / NaN / finite
            if n >= 2 && it % 4 == 0 {
                let mut sp = ar.clone();
                let k = r.below(n as u64) as usize;
                match r.below(4) { 0 => sp[k] = f64::INFINITY, 1 => sp[k] = f64::NEG_INFINITY, 2 => { sp[0] = 1.5e308; sp[n - 1] = 1.0e308; if n > 2 { sp[1] = 1.2e308; } } _ => { sp[k] = f64::INFINITY; sp[(k + 1) % n] = f64::NEG_INFINITY; } }
                let class_of = |x: f64| if x.is_nan() { 0 } else if x == f64::INFINITY { 1 } else if x == f64::NEG_INFINITY { 2 } else { 3 };
                let naive_sum = sp.iter().fold(0.0f64, |a, b| a + b);
                let inp = format!("x={}", json_floats(&sp)); crumb(&inp); tried += 2;
                let got = sum(&sp);
                // every association of the additions gives the same class here unless both infinities (or an overflow of either sign) can meet
                let ambiguous = sp.iter().any(|x| x.is_nan()) || (sp.iter().any(|x| *x > 1e307) && sp.iter().any(|x| *x < -1e307));
                if !ambiguous && class_of(got) != class_of(naive_sum) { out.push(Finding { class: "sum:special-values".into(), what: format!("sum = {:e}, adding the elements one after the other gives {:e}", got, naive_sum), input: inp.clone() }); }
                let got = catch(|| Vector::new(sp.clone()).sum());
                if let Ok(g) = got { if !ambiguous && class_of(g) != class_of(naive_sum) { out.push(Finding { class: "Vector::sum:special-values".into(), what: format!("Vector::sum = {:e}, adding the elements one after the other gives {:e}", g, naive_sum), input: inp.clone() }); } }
            }
            if n >= 1 {
                // log-sum-exp, including large-magnitude inputs (the naive formula would overflow / underflow)
                let shift = *r.pick(&[0.0, 0.0, 700.0, -700.0, 1e4, -1e6, 1e300, -1e300]);
                let al: Vec<f64> = ar.iter().map(|x| x * 3.0 + shift).collect();
                let m = al.iter().cloned().fold(f64::NEG_INFINITY, f64::max);
                let sref = dd_sum(al.iter().map(|x| (x - m).exp()));
                let (lse, lme) = (sref.ln() + m, (sref / n as f64).ln() + m);
                let tol = |w: f64| 4.0 * (nn + 8.0) * u * w.abs().max(1.0);
                let inp = format!("x={}", json_floats(&al)); crumb(&inp);
                let got = logsumexp(&al); tried += 1;
                if !got.is_finite() { out.push(Finding { class: "logsumexp:overflow".into(), what: format!("logsumexp = {:e} for finite inputs (true value {:e})", got, lse), input: inp.clone() }); }
                else if (got - lse).abs() > tol(lse) { out.push(Finding { class: "logsumexp:inaccurate".into(), what: format!("logsumexp = {:e}, reference {:e}", got, lse), input: inp.clone() }); }
                let got = logmeanexp(&al); tried += 1;
                if !got.is_finite() { out.push(Finding { class: "logmeanexp:overflow".into(), what: format!("logmeanexp = {:e} for finite inputs (true value {:e})", got, lme), input: inp.clone() }); }
                else if (got - lme).abs() > tol(lme) { out.push(Finding { class: "logmeanexp:inaccurate".into(), what: format!("logmeanexp = {:e}, reference {:e}", got, lme), input: inp.clone() }); }
                // the overflow / underflow EDGES of exp: every single exp(x_i) is finite (resp. non-zero) but their plain sum is not:
                // k values within half a unit below a maximum m with m < 709.78 < m + ln k (and the mirror image near -745)
                for edge in [1.0f64, -1.0] {
                    let k = 2 + r.below(if it % 7 == 0 { 3000 } else { 40 }) as usize;
                    let m = if edge > 0.0 { 709.7 - (k as f64).ln() * r.unit() } else { -745.2 - 3.0 * r.unit() };
                    let ae: Vec<f64> = (0..k).map(|i| if i == k / 2 { m } else { m - 0.5 * r.unit() }).collect();
                    let sref = dd_sum(ae.iter().map(|x| (x - m).exp()));
                    let (lse, lme) = (sref.ln() + m, (sref / k as f64).ln() + m);
                    let tol = |w: f64| 4.0 * (k as f64 + 10.0) * u * w.abs().max(1.0);
                    let inp = format!("x={}", json_floats(&ae)); crumb(&inp);
                    let got = logsumexp(&ae); tried += 1;
                    if !got.is_finite() { out.push(Finding { class: "logsumexp:overflow".into(), what: format!("logsumexp = {:e} for {} finite inputs near {:e} (true value {:e})", got, k, m, lse), input: inp.clone() }); }
                    else if (got - lse).abs() > tol(lse) { out.push(Finding { class: "logsumexp:inaccurate".into(), what: format!("logsumexp = {:e}, reference {:e}", got, lse), input: inp.clone() }); }
                    let got = logmeanexp(&ae); tried += 1;
                    if !got.is_finite() { out.push(Finding { class: "logmeanexp:overflow".into(), what: format!("logmeanexp = {:e} for {} finite inputs near {:e} (true value {:e})", got, k, m, lme), input: inp.clone() }); }
                    else if (got - lme).abs() > tol(lme) { out.push(Finding { class: "logmeanexp:inaccurate".into(), what: format!("logmeanexp = {:e}, reference {:e}", got, lme), input: inp.clone() }); }
                }
                // infinity norms
                let sh = shapes_of(n); let (rr, cc) = *r.pick(&sh);
                let iref = (0..rr).map(|i| dd_sum((0..cc).map(|j| ar[i * cc + j].abs()))).fold(0.0, f64::max);
                let inp = format!("shape={}x{} a={}", rr, cc, json_floats(&ar)); crumb(&inp);
                let got = catch(|| inf_norm(&ar, rr)); tried += 1;
                match got { Ok(g) => if (g - iref).abs() > (cc as f64 + 2.0) * u * iref { out.push(Finding { class: "inf_norm:wrong".into(), what: format!("inf_norm = {:e}, max row sum = {:e}", g, iref), input: inp.clone() }); },
                            Err(e) => out.push(Finding { class: "inf_norm:panics".into(), what: e, input: inp.clone() }) }
                let mm = mk(rr, cc, &ar);
                let got = catch(|| mm.inf_norm()); tried += 1;
                match got { Ok(g) => if (g - iref).abs() > (cc as f64 + 2.0) * u * iref { out.push(Finding { class: "Matrix::inf_norm:wrong".into(), what: format!("Matrix::inf_norm = {:e}, max row sum = {:e}", g, iref), input: inp.clone() }); },
                            Err(e) => out.push(Finding { class: "Matrix::inf_norm:panics".into(), what: e, input: inp.clone() }) }
                if n >= 2 { let bad = n + 1; tried += 1; if let Ok(g) = catch(|| inf_norm(&ar, bad)) { if n % bad != 0 { out.push(Finding { class: "inf_norm:nonmatrix-accepted".into(), what: format!("inf_norm returned {:e} for {} elements in {} rows", g, n, bad), input: inp.clone() }); } } }
            }
            tried += 1;
            if let Ok(g) = catch(|| dot(&ar, &vals(&mut Rng::new(it as u64), n + 1, Mode::Ints))) { out.push(Finding { class: "dot:length-mismatch-accepted".into(), what: format!("dot returned {:e} for lengths {} and {}", g, n, n + 1), input: inp.clone() }); }
        }
        if out.len() > 40 { break; }
    }
    coverage(tier, &mut r, &mut out, &mut tried);
    (tried, out)
}

// ---------------------------------------------------------------------------------------------
// coverage audit: evaluation points that reach the whole of the property's quantifier. Nothing new is demanded (same
// classes, same tolerances as above); the points are: every (length 0..=40) x (operator) x (form) x (every factorisation
// of the length as a Matrix shape, squares and tall shapes included), every map / powi / powf exponent at every length
// 0..=40 on Vector and Matrix, every ordered pair of special values through every operator form, lengths up to 1e4
// through every form / map / reduction, reductions over the whole exponent range in which nothing overflows, products
// with negative factors and zeros, every same-size and different-size shape mismatch.

/// every factorisation r x c of n (n >= 1): 1 x n, n x 1, squares and tall shapes included
fn shapes_all(n: usize) -> Vec<(usize, usize)> { (1..=n).filter(|d| n % d == 0).map(|d| (d, n / d)).collect() }

/// special values and the edges of the maps' domains / rounding functions (the maps are compared kernel-vs-scalar, so any value is valid)
const SPX: [f64; 32] = [0.0, -0.0, f64::INFINITY, f64::NEG_INFINITY, f64::NAN, 5e-324, -5e-324, 2.2250738585072014e-308, -2.2250738585072014e-308,
    1.7976931348623157e308, -1.7976931348623157e308, 1.0, -1.0, 1e-300, 4.4501477170144023e-308, 2.225073858507201e-308,
    0.5, -0.5, 0.49999999999999994, -0.49999999999999994, 1.5, 2.5, -2.5, 4503599627370497.0, 0.9999999999999999, 1.0000000000000002,
    709.782712893384, 710.0, -745.2, 1e16, 1.3407807929942597e154, 1.4916681462400413e-154];

/// magnitudes over the exponent range 2^-emax .. 2^emax, either sign
fn wide(r: &mut Rng, emax: i64) -> f64 { let e = r.range(-emax, emax) as i32; let m = r.uniform(1.0, 2.0) * 2f64.powi(e); if r.coin(0.5) { m } else { -m } }

/// every operator form (Vector: 4 + 4 + 2 + 1; Matrix, for every given shape: 4 + 4 + 2 + 1 and negation) on the same operands,
/// and every borrowed operand unchanged afterwards
fn all_forms(out: &mut Vec<Finding>, tried: &mut u64, t: usize, a: &[f64], b: &[f64], s: f64, shapes: &[(usize, usize)]) {
    let n = a.len();
    let want: Vec<f64> = (0..n).map(|i| sop(t, a[i], b[i])).collect();
    let want_vs: Vec<f64> = (0..n).map(|i| sop(t, a[i], s)).collect();
    let want_sv: Vec<f64> = (0..n).map(|i| sop(t, s, a[i])).collect();
    let inp = format!("op={} (every form) a={} b={} scalar={:e}", OPN[t], json_floats(a), json_floats(b), s); crumb(&inp);
    for f in 0..4 {
        check_pos(out, &format!("vec-op-vec:{}", OPN[t]), &vec_vec(t, f, a, b), &want, &format!("form={} {}", f, inp));
        check_pos(out, &format!("{}:{}", if f < 2 { "vec-op-scalar" } else { "scalar-op-vec" }, OPN[t]), &vec_scalar(t, f, a, s), if f < 2 { &want_vs } else { &want_sv }, &format!("form={} {}", f, inp));
    }
    for f in 0..2 {
        let mut w2 = want.clone(); if f == 1 { w2.extend_from_slice(b); }
        check_pos(out, &format!("vec-assign-vec:{}", OPN[t]), &vec_vec_assign(t, f, a, b), &w2, &format!("form={} {}", f, inp));
    }
    check_pos(out, &format!("vec-assign-scalar:{}", OPN[t]), &vec_scalar_assign(t, a, s), &want_vs, &inp);
    // the same Vector on both sides
    { let x = Vector::new(a.to_vec()); let want_aa: Vec<f64> = (0..n).map(|i| sop(t, a[i], a[i])).collect();
      check_pos(out, &format!("vec-op-vec:{}", OPN[t]), &catch(|| { let z: Vector = binop!(t, &x, &x); z.v }), &want_aa, &format!("&x op &x {}", inp)); }
    *tried += 12;
    { let (x, y) = (Vector::new(a.to_vec()), Vector::new(b.to_vec()));
      let _ = catch(|| {
          let _z: Vector = binop!(t, &x, &y); let _z: Vector = binop!(t, x.clone(), &y); let _z: Vector = binop!(t, &x, y.clone());
          let _z: Vector = binop!(t, &x, s); let _z: Vector = binop!(t, s, &x);
          let mut z = x.clone(); asgop!(t, z, &y);
      });
      *tried += 1;
      if !same_vec(&x.v, a) || !same_vec(&y.v, b) { out.push(Finding { class: "operand-modified".into(), what: "a borrowed Vector operand changed".into(), input: inp.clone() }); } }
    for &(rr, cc) in shapes {
        let (m1, m2) = (mk(rr, cc, a), mk(rr, cc, b));
        let inpm = format!("shape={}x{} {}", rr, cc, inp); crumb(&inpm);
        let shape = |w: &[f64]| { let mut o = vec![rr as f64, cc as f64]; o.extend_from_slice(w); o };
        for f in 0..4 {
            check_pos(out, &format!("mat-op-mat:{}", OPN[t]), &mat_mat(t, f, &m1, &m2), &shape(&want), &format!("form={} {}", f, inpm));
            check_pos(out, &format!("{}:{}", if f < 2 { "mat-op-scalar" } else { "scalar-op-mat" }, OPN[t]), &mat_scalar(t, f, &m1, s), &shape(if f < 2 { &want_vs } else { &want_sv }), &format!("form={} {}", f, inpm));
        }
        for f in 0..2 {
            let mut w3 = shape(&want); if f == 1 { w3.extend(shape(b)); }
            check_pos(out, &format!("mat-assign-mat:{}", OPN[t]), &mat_mat_assign(t, f, &m1, &m2), &w3, &format!("form={} {}", f, inpm));
        }
        check_pos(out, &format!("mat-assign-scalar:{}", OPN[t]), &mat_scalar_assign(t, &m1, s), &shape(&want_vs), &inpm);
        let neg: Vec<f64> = a.iter().map(|x| -x).collect();
        let m = m1.clone();
        check_pos(out, "neg:matrix", &catch(move || mat_out(&(-m))), &shape(&neg), &inpm);
        *tried += 12;
        { let (x, y) = (m1.clone(), m2.clone());
          let _ = catch(|| {
              let _z: Matrix = binop!(t, &x, &y); let _z: Matrix = binop!(t, x.clone(), &y); let _z: Matrix = binop!(t, &x, y.clone());
              let _z: Matrix = binop!(t, &x, s); let _z: Matrix = binop!(t, s, &x);
              let mut z = x.clone(); asgop!(t, z, &y);
              let _z = x.abs(); let _z = x.powi(2); let _z = x.powf(0.5);
          });
          *tried += 1;
          if !same_vec(&x.data, a) || !same_vec(&y.data, b) || x.nrows != rr || x.ncols != cc || y.nrows != rr || y.ncols != cc {
              out.push(Finding { class: "operand-modified".into(), what: "a borrowed Matrix operand changed".into(), input: inpm.clone() }); } }
    }
}

/// one map on a Vector and (n >= 1) on a Matrix of the given shape: kernel vs the scalar method at each position
fn one_map(out: &mut Vec<Finding>, tried: &mut u64, row: &MapRow, am: &[f64], shape: Option<(usize, usize)>) {
    let (name, vm, mm, sm, _, _) = *row;
    let wantm: Vec<f64> = am.iter().map(|x| sm(*x)).collect();
    let x = Vector::new(am.to_vec());
    let inpx = format!("map={} a={}", name, json_floats(am)); crumb(&inpx);
    check_pos(out, &format!("map:{}", name), &catch(|| vm(&x).v), &wantm, &inpx); *tried += 1;
    if !same_vec(&x.v, am) { out.push(Finding { class: "operand-modified".into(), what: "a map changed its operand".into(), input: inpx.clone() }); }
    if let Some((rr, cc)) = shape {
        let m = mk(rr, cc, am);
        let mut w = vec![rr as f64, cc as f64]; w.extend_from_slice(&wantm);
        let inpx = format!("map={} shape={}x{} a={}", name, rr, cc, json_floats(am)); crumb(&inpx);
        check_pos(out, &format!("map:{}", name), &catch(|| mat_out(&mm(&m))), &w, &inpx); *tried += 1;
        if !same_vec(&m.data, am) { out.push(Finding { class: "operand-modified".into(), what: "a Matrix map changed its operand".into(), input: inpx.clone() }); }
    }
}

/// powi / powf on a Vector and on a Matrix of the given shape
fn one_pow(out: &mut Vec<Finding>, tried: &mut u64, ap: &[f64], e: Option<i32>, p: Option<f64>, shape: Option<(usize, usize)>) {
    if let Some(e) = e {
        let inpx = format!("powi exponent={} a={}", e, json_floats(ap)); crumb(&inpx);
        let wantp: Vec<f64> = ap.iter().map(|x| std::hint::black_box(*x).powi(std::hint::black_box(e))).collect();
        let class = format!("powi:{}", if e == 2 || e == 3 { e.to_string() } else { "other".into() });
        let x = Vector::new(ap.to_vec());
        check_pos(out, &class, &catch(move || x.powi(e).v), &wantp, &inpx); *tried += 1;
        if let Some((rr, cc)) = shape {
            let m = mk(rr, cc, ap);
            let mut w = vec![rr as f64, cc as f64]; w.extend_from_slice(&wantp);
            check_pos(out, &class, &catch(move || mat_out(&m.powi(e))), &w, &format!("Matrix {}x{} {}", rr, cc, inpx)); *tried += 1;
        }
    }
    if let Some(p) = p {
        let inpx = format!("powf exponent={:e} a={}", p, json_floats(ap)); crumb(&inpx);
        let wantp: Vec<f64> = ap.iter().map(|x| std::hint::black_box(*x).powf(std::hint::black_box(p))).collect();
        let x = Vector::new(ap.to_vec());
        check_pos(out, "powf", &catch(move || x.powf(p).v), &wantp, &inpx); *tried += 1;
        if let Some((rr, cc)) = shape {
            let m = mk(rr, cc, ap);
            let mut w = vec![rr as f64, cc as f64]; w.extend_from_slice(&wantp);
            check_pos(out, "powf", &catch(move || mat_out(&m.powf(p))), &w, &format!("Matrix {}x{} {}", rr, cc, inpx)); *tried += 1;
        }
    }
}

/// sum / dot / norm through the free function, the Vector method and the Matrix method, against the compensated references, with the
/// bounds of the main loop (finite data; no product underflows or overflows: the caller's responsibility)
fn sum_dot_norm(out: &mut Vec<Finding>, tried: &mut u64, ar: &[f64], br: &[f64]) {
    let n = ar.len();
    let u = f64::EPSILON; let nn = n as f64 + 2.0;
    let inp = format!("a={} b={}", json_floats(ar), json_floats(br)); crumb(&inp);
    let (sref, sabs) = (dd_sum(ar.iter().copied()), ar.iter().map(|x| x.abs()).sum::<f64>());
    let shp = if n == 0 { (0, 0) } else { let sh = shapes_all(n); sh[sh.len() / 2] };
    let sums = [("sum", catch(|| sum(ar))), ("Vector::sum", catch(|| Vector::new(ar.to_vec()).sum())), ("Matrix::sum", catch(|| mk(shp.0, shp.1, ar).sum()))];
    for (nm, g) in sums { *tried += 1; match g {
        Ok(got) => if !((got - sref).abs() <= nn * u * sabs) { out.push(Finding { class: "sum:beyond-rounding-bound".into(), what: format!("{} = {:e}, exact sum = {:e}, bound {:e}", nm, got, sref, nn * u * sabs), input: inp.clone() }); },
        Err(e) => out.push(Finding { class: "sum:panics".into(), what: format!("{} panicked: {}", nm, e), input: inp.clone() }) } }
    let (mut dh, mut dabs) = (vec![], 0.0);
    for i in 0..n { let (p, e) = two_prod(ar[i], br[i]); dh.push(p); dh.push(e); dabs += p.abs(); }
    let dref = dd_sum(dh.iter().copied());
    *tried += 1;
    match catch(|| dot(ar, br)) {
        Ok(got) => if !((got - dref).abs() <= (nn + 1.0) * u * dabs) { out.push(Finding { class: "dot:beyond-rounding-bound".into(), what: format!("dot = {:e}, exact = {:e}, bound {:e}", got, dref, (nn + 1.0) * u * dabs), input: inp.clone() }); },
        Err(e) => out.push(Finding { class: "dot:panics".into(), what: e, input: inp.clone() }) }
    let mut qh = vec![]; for i in 0..n { let (p, e) = two_prod(ar[i], ar[i]); qh.push(p); qh.push(e); }
    let nref = dd_sum(qh.iter().copied()).sqrt();
    let norms = [("norm", catch(|| norm(ar))), ("Vector::norm", catch(|| Vector::new(ar.to_vec()).norm())), ("Matrix::norm", catch(|| mk(shp.0, shp.1, ar).norm()))];
    for (nm, g) in norms { *tried += 1; match g {
        Ok(got) => if !((got - nref).abs() <= (nn + 2.0) * u * nref) { out.push(Finding { class: "norm:beyond-rounding-bound".into(), what: format!("{} = {:e}, reference = {:e}", nm, got, nref), input: inp.clone() }); },
        Err(e) => out.push(Finding { class: "norm:panics".into(), what: format!("{} panicked: {}", nm, e), input: inp.clone() }) } }
}

/// prod of non-zero finite factors of either sign whose running product stays far from overflow and underflow (checked here on the logarithms):
/// the sign is the parity of the negative factors, ln|prod| = sum of ln|x_i| within the bound of the main loop
fn prod_signed(out: &mut Vec<Finding>, tried: &mut u64, ap: &[f64]) {
    let n = ap.len(); let u = f64::EPSILON; let nn = n as f64 + 2.0;
    let mut run = 0.0f64; for x in ap { run += x.abs().ln(); if !(run.abs() < 600.0) { return; } }
    let lref = dd_sum(ap.iter().map(|x| x.abs().ln()));
    let negs = ap.iter().filter(|x| **x < 0.0).count();
    let inp = format!("a={}", json_floats(ap)); crumb(&format!("prod {}", inp));
    let shp = if n == 0 { (0, 0) } else { let sh = shapes_all(n); sh[sh.len() / 2] };
    let prods = [("prod", catch(|| prod(ap))), ("Vector::prod", catch(|| Vector::new(ap.to_vec()).prod())), ("Matrix::prod", catch(|| mk(shp.0, shp.1, ap).prod()))];
    for (nm, g) in prods { *tried += 1; match g {
        Ok(got) => {
            if !((got.abs().ln() - lref).abs() <= (nn + 4.0) * u * (1.0 + ap.iter().map(|x| x.abs().ln().abs()).sum::<f64>())) {
                out.push(Finding { class: "prod:beyond-rounding-bound".into(), what: format!("ln|{}| = {:e}, sum of ln|x_i| = {:e}", nm, got.abs().ln(), lref), input: inp.clone() }); }
            else if (got < 0.0) != (negs % 2 == 1) { out.push(Finding { class: "prod:wrong-sign".into(), what: format!("{} = {:e} with {} negative factors", nm, got, negs), input: inp.clone() }); }
        }
        Err(e) => out.push(Finding { class: "prod:panics".into(), what: format!("{} panicked: {}", nm, e), input: inp.clone() }) } }
}

/// logsumexp / logmeanexp of finite inputs through the free function and the Vector method: finite, and within the tolerance of the main loop
fn lse_lme(out: &mut Vec<Finding>, tried: &mut u64, al: &[f64]) {
    let n = al.len(); if n == 0 { return; }
    let u = f64::EPSILON;
    let m = al.iter().cloned().fold(f64::NEG_INFINITY, f64::max);
    let sref = dd_sum(al.iter().map(|x| (x - m).exp()));
    let (lse, lme) = (sref.ln() + m, (sref / n as f64).ln() + m);
    let tol = |w: f64| 4.0 * (n as f64 + 10.0) * u * w.abs().max(1.0);
    let inp = format!("x={}", json_floats(al)); crumb(&inp);
    let gots = [("logsumexp", "logsumexp", catch(|| logsumexp(al)), lse), ("Vector::logsumexp", "logsumexp", catch(|| Vector::new(al.to_vec()).logsumexp()), lse),
                ("logmeanexp", "logmeanexp", catch(|| logmeanexp(al)), lme), ("Vector::logmeanexp", "logmeanexp", catch(|| Vector::new(al.to_vec()).logmeanexp()), lme)];
    for (nm, cl, g, want) in gots { *tried += 1; match g {
        Ok(got) => if !got.is_finite() { out.push(Finding { class: format!("{}:overflow", cl), what: format!("{} = {:e} for {} finite inputs (true value {:e})", nm, got, n, want), input: inp.clone() }); }
                   else if !((got - want).abs() <= tol(want)) { out.push(Finding { class: format!("{}:inaccurate", cl), what: format!("{} = {:e}, reference {:e}", nm, got, want), input: inp.clone() }); },
        Err(e) => out.push(Finding { class: format!("{}:panics", cl), what: format!("{} panicked: {}", nm, e), input: inp.clone() }) } }
}

/// both infinity norms on every given shape, with the bound of the main loop; row counts that do not divide the length are rejected
fn inf_norms(out: &mut Vec<Finding>, tried: &mut u64, ar: &[f64], shapes: &[(usize, usize)]) {
    let n = ar.len(); let u = f64::EPSILON;
    for &(rr, cc) in shapes {
        let iref = (0..rr).map(|i| dd_sum((0..cc).map(|j| ar[i * cc + j].abs()))).fold(0.0, f64::max);
        let inp = format!("shape={}x{} a={}", rr, cc, json_floats(ar)); crumb(&inp);
        *tried += 2;
        match catch(|| inf_norm(ar, rr)) {
            Ok(g) => if !((g - iref).abs() <= (cc as f64 + 2.0) * u * iref) { out.push(Finding { class: "inf_norm:wrong".into(), what: format!("inf_norm = {:e}, max row sum = {:e}", g, iref), input: inp.clone() }); },
            Err(e) => out.push(Finding { class: "inf_norm:panics".into(), what: e, input: inp.clone() }) }
        let mm = mk(rr, cc, ar);
        match catch(|| mm.inf_norm()) {
            Ok(g) => if !((g - iref).abs() <= (cc as f64 + 2.0) * u * iref) { out.push(Finding { class: "Matrix::inf_norm:wrong".into(), what: format!("Matrix::inf_norm = {:e}, max row sum = {:e}", g, iref), input: inp.clone() }); },
            Err(e) => out.push(Finding { class: "Matrix::inf_norm:panics".into(), what: e, input: inp.clone() }) }
    }
    if n >= 1 {
        let mut bad: Vec<usize> = vec![0, n + 1, 2 * n, n + 7];
        for d in 2..n { if n % d != 0 { bad.push(d); if bad.len() > 8 { break; } } }
        if n >= 3 { bad.push(n - 1); }
        for nr in bad {
            if nr != 0 && n % nr == 0 { continue; }
            let inp = format!("nrows={} a={}", nr, json_floats(ar)); crumb(&inp); *tried += 1;
            if let Ok(g) = catch(|| inf_norm(ar, nr)) { out.push(Finding { class: "inf_norm:nonmatrix-accepted".into(), what: format!("inf_norm returned {:e} for {} elements in {} rows", g, n, nr), input: inp }); }
        }
    }
}

fn coverage(tier: &str, r: &mut Rng, out: &mut Vec<Finding>, tried: &mut u64) {
    let thorough = tier == "thorough";
    let maps = all_maps();
    let modes = [Mode::Reals, Mode::Special, Mode::Ints];
    // A. every length 0..=40 x every operator x every form x every factorisation of the length
    for rep in 0..(if thorough { 3 } else { 1 }) { for n in 0..=40usize { for t in 0..4 {
        let md = modes[(n + t + rep) % 3];
        let (a, b) = (vals(r, n, md), vals(r, n, md));
        let s = val(r, md);
        let sh = if n == 0 { vec![] } else { shapes_all(n) };
        all_forms(out, tried, t, &a, &b, s, &sh);
        if out.len() > 40 { return; }
    }}}
    // B. every ordered pair of special values through every operator form: element against element (one K*K vector, also as the K x K
    //    square Matrix) and element against scalar
    { let k = SPX.len();
      let a: Vec<f64> = (0..k * k).map(|i| SPX[i / k]).collect();
      let b: Vec<f64> = (0..k * k).map(|i| SPX[i % k]).collect();
      for t in 0..4 {
          all_forms(out, tried, t, &a, &b, SPX[(7 * t + 3) % k], &[(k, k)]);
          for (j, s) in SPX.iter().enumerate() {
              let rot: Vec<f64> = (0..k).map(|i| SPX[(i + j) % k]).collect();
              all_forms(out, tried, t, &SPX, &rot, *s, &[(4, k / 4)]);
          }
          if out.len() > 40 { return; }
      } }
    // C. every map at every length 0..=40: values in the map's domain, a rotation of the special values / domain edges (so that each of
    //    them meets the first, the last and the chunk-boundary positions), random bit patterns at the thorough tier; Vector and Matrix
    for (mi, row) in maps.iter().enumerate() { for n in 0..=40usize { for pass in 0..(if thorough { 3 } else { 2 }) {
        let am: Vec<f64> = match pass { 0 => vals(r, n, row.4), 1 => (0..n).map(|i| SPX[(i + n + mi) % SPX.len()]).collect(), _ => (0..n).map(|_| f64::from_bits(r.next())).collect() };
        let shape = if n == 0 { None } else { let sh = shapes_all(n); Some(sh[(n + mi + pass) % sh.len()]) };
        one_map(out, tried, row, &am, shape);
    }} if out.len() > 40 { return; } }
    // D. powi / powf: every length 0..=40 x the exponents of the correspondence generator and the extreme ones
    let exps: [i32; 22] = [-3, -2, -1, 0, 1, 2, 3, 4, 5, 7, 10, -8, 11, -7, 31, 64, -64, 1000, -1075, i32::MAX, i32::MIN + 1, i32::MIN];
    let pexps: [f64; 20] = [2.0, 3.0, 0.5, -1.25, -1.5, 0.0, -0.0, 1.0, -1.0, 1.0 / 3.0, 1e3, -1e3, f64::NAN, f64::INFINITY, f64::NEG_INFINITY, 5e-324, 1e308, 2.0000000000000004, 1075.0, -1074.5];
    for n in 0..=40usize {
        for (ei, &e) in exps.iter().enumerate() {
            let ap: Vec<f64> = match (n + ei) % 3 { 0 => vals(r, n, Mode::Reals), 1 => vals(r, n, Mode::Special), _ => (0..n).map(|i| SPX[(i + n + ei) % SPX.len()]).collect() };
            let shape = if n == 0 { None } else { let sh = shapes_all(n); Some(sh[(n + ei) % sh.len()]) };
            one_pow(out, tried, &ap, Some(e), Some(pexps[(n + ei) % pexps.len()]), shape);
        }
        if thorough { for (pi, &p) in pexps.iter().enumerate() {
            let ap: Vec<f64> = if (n + pi) % 2 == 0 { vals(r, n, Mode::Pos) } else { (0..n).map(|i| SPX[(i + n + pi) % SPX.len()]).collect() };
            let shape = if n == 0 { None } else { let sh = shapes_all(n); Some(sh[(n + pi) % sh.len()]) };
            one_pow(out, tried, &ap, None, Some(p), shape);
        } }
        if out.len() > 40 { return; }
    }
    // E. shape / length mismatches: every ordered pair of distinct factorisations of the same size (only the shape assertion can reject
    //    these), shapes of different sizes, square shapes; dot and the vector forms with a longer, a shorter and an empty partner
    for n in 1..=40usize {
        let sh = shapes_all(n);
        let t = n % 4;
        let (a, b) = (vals(r, n, Mode::Ints), vals(r, n, Mode::Ints));
        for &(r1, c1) in &sh { for &(r2, c2) in &sh {
            if (r1, c1) == (r2, c2) { continue; }
            let (m1, m3) = (mk(r1, c1, &a), mk(r2, c2, &b));
            let inp = format!("op={} {}x{} with {}x{} a={} b={}", OPN[t], r1, c1, r2, c2, json_floats(&a), json_floats(&b)); crumb(&inp);
            for f in 0..2 { *tried += 1; if let Ok(v) = mat_mat_assign(t, f, &m1, &m3) { out.push(Finding { class: "mat-assign-mat:shape-mismatch-accepted".into(), what: format!("{}x{} op= {}x{} returned {:?}", r1, c1, r2, c2, &v[..2]), input: inp.clone() }); } }
            if r1 > 1 && c1 > 1 && r2 > 1 && c2 > 1 { for f in 0..4 { *tried += 1; if let Ok(v) = mat_mat(t, f, &m1, &m3) { out.push(Finding { class: "mat-op-mat:shape-mismatch-accepted".into(), what: format!("{}x{} op {}x{} returned {:?}", r1, c1, r2, c2, &v[..2]), input: inp.clone() }); } } }
        }}
        // different sizes: one more / one fewer row or column (all dimensions >= 2 for the broadcasting operator)
        for &(r1, c1) in &sh {
            for &(r2, c2) in &[(r1 + 1, c1), (r1, c1 + 1), (r1 + 1, c1 + 1), (r1.max(2) - 1, c1), (r1, c1.max(2) - 1)] {
                if (r1, c1) == (r2, c2) { continue; }
                let b2 = vals(r, r2 * c2, Mode::Ints);
                let (m1, m3) = (mk(r1, c1, &a), mk(r2, c2, &b2));
                let inp = format!("op={} {}x{} with {}x{} a={} b={}", OPN[t], r1, c1, r2, c2, json_floats(&a), json_floats(&b2)); crumb(&inp);
                for f in 0..2 { *tried += 2;
                    if let Ok(v) = mat_mat_assign(t, f, &m1, &m3) { out.push(Finding { class: "mat-assign-mat:shape-mismatch-accepted".into(), what: format!("{}x{} op= {}x{} returned {:?}", r1, c1, r2, c2, &v[..2]), input: inp.clone() }); }
                    if let Ok(v) = mat_mat_assign(t, f, &m3, &m1) { out.push(Finding { class: "mat-assign-mat:shape-mismatch-accepted".into(), what: format!("{}x{} op= {}x{} returned {:?}", r2, c2, r1, c1, &v[..2]), input: inp.clone() }); } }
                if r1 > 1 && c1 > 1 && r2 > 1 && c2 > 1 { for f in 0..4 { *tried += 1; if let Ok(v) = mat_mat(t, f, &m1, &m3) { out.push(Finding { class: "mat-op-mat:shape-mismatch-accepted".into(), what: format!("{}x{} op {}x{} returned {:?}", r1, c1, r2, c2, &v[..2]), input: inp.clone() }); } } }
            }
        }
        if out.len() > 40 { return; }
    }
    for n in 0..=40usize { for t in 0..4 {
        let a = vals(r, n, Mode::Ints);
        let mut others: Vec<usize> = vec![n + 1, n + 8, n + 16, 2 * n + 3];
        if n >= 1 { others.extend([0, n - 1, n / 2]); } if n >= 9 { others.push(n - 8); }
        for k in others {
            if k == n { continue; }
            let b2 = vals(r, k, Mode::Ints);
            let inp2 = format!("op={} a={} b={}", OPN[t], json_floats(&a), json_floats(&b2)); crumb(&inp2);
            for (p, q) in [(&a, &b2), (&b2, &a)] {
                for f in 0..4 { *tried += 1; if let Ok(v) = vec_vec(t, f, p, q) { out.push(Finding { class: "vec-op-vec:length-mismatch-accepted".into(), what: format!("returned {} values for operands of lengths {} and {}", v.len(), p.len(), q.len()), input: inp2.clone() }); } }
                for f in 0..2 { *tried += 1; if let Ok(v) = vec_vec_assign(t, f, p, q) { out.push(Finding { class: "vec-assign-vec:length-mismatch-accepted".into(), what: format!("returned {} values for operands of lengths {} and {}", v.len(), p.len(), q.len()), input: inp2.clone() }); } }
                if t == 0 { *tried += 1; if let Ok(g) = catch(|| dot(p, q)) { out.push(Finding { class: "dot:length-mismatch-accepted".into(), what: format!("dot returned {:e} for lengths {} and {}", g, p.len(), q.len()), input: inp2.clone() }); } }
            }
        }
        if out.len() > 40 { return; }
    }}
    // F. reductions at every length 0..=40: the whole exponent range in which no square over- or underflows (2^-400 .. 2^400), massive
    //    cancellation, constant vectors, products of factors of either sign, log-domain inputs of every magnitude; both infinity norms on
    //    every factorisation
    for rep in 0..(if thorough { 6 } else { 1 }) { for n in 0..=40usize {
        let ar: Vec<f64> = (0..n).map(|_| wide(r, 400)).collect(); let br: Vec<f64> = (0..n).map(|_| wide(r, 400)).collect();
        sum_dot_norm(out, tried, &ar, &br);
        // cancellation: pairs x, -x in random positions, one small survivor
        let mut ac = vals(r, n, Mode::Reals);
        for i in 0..n / 2 { ac[2 * i + 1] = -ac[2 * i]; }
        for i in (1..n).rev() { let j = r.below(i as u64 + 1) as usize; ac.swap(i, j); }
        if n % 2 == 1 { ac[n / 2] = 1e-9 * r.uniform(-1.0, 1.0); }
        let bc = vals(r, n, Mode::Reals);
        sum_dot_norm(out, tried, &ac, &bc);
        let c = wide(r, 300); sum_dot_norm(out, tried, &vec![c; n], &vec![-c; n]);
        let sh = if n == 0 { vec![] } else { shapes_all(n) };
        inf_norms(out, tried, &ar, &sh);
        inf_norms(out, tried, &ac, &sh);
        // products: factors of either sign, magnitudes e^(+-l); balanced so that the running product stays in range
        let l = *r.pick(&[0.1, 1.0, 5.0, 25.0]);
        let ap: Vec<f64> = (0..n).map(|_| { let m = r.uniform(-l, l).exp(); if r.coin(0.5) { m } else { -m } }).collect();
        prod_signed(out, tried, &ap);
        prod_signed(out, tried, &vals(r, n, Mode::Pos));
        if n >= 1 {
            // a zero factor among finite ones: the product is a zero
            let mut az = ap.clone(); az[r.below(n as u64) as usize] = if r.coin(0.5) { 0.0 } else { -0.0 };
            let inp = format!("a={}", json_floats(&az)); crumb(&format!("prod {}", inp)); *tried += 1;
            let got = prod(&az);
            if az.iter().all(|x| x.abs() < 1e30) && l <= 5.0 && got != 0.0 { out.push(Finding { class: "prod:zero-factor".into(), what: format!("prod = {:e} although a factor is zero and every partial product is finite", got), input: inp }); }
            // log-domain inputs
            for shift in [0.0, 700.0, -700.0, 1e4, -1e6, 1e300, -1e300, 1.7e308, -1.7e308, 1e-300] {
                let spread = *r.pick(&[1e-3, 1.0, 30.0, 800.0, 1e5]);
                let al: Vec<f64> = (0..n).map(|_| { let x: f64 = shift + r.uniform(-spread, spread); if x.is_finite() { x } else { shift } }).collect();
                lse_lme(out, tried, &al);
            }
            lse_lme(out, tried, &vec![1.7976931348623157e308; n]);
            lse_lme(out, tried, &vec![-1.7976931348623157e308; n]);
            let mut ex = vec![-1.7976931348623157e308; n]; ex[n - 1] = 1.7976931348623157e308; lse_lme(out, tried, &ex);
            let mut ex = vec![1.7976931348623157e308; n]; ex[0] = -1.7976931348623157e308; lse_lme(out, tried, &ex);
            lse_lme(out, tried, &vec![0.0; n]); lse_lme(out, tried, &vec![5e-324; n]);
        }
        if out.len() > 40 { return; }
    } let _ = rep; }
    // G. lengths up to 1e4 (the stated maximum) and the powers of two around which an index computation could wrap: every operator form,
    //    a few shapes incl. the most square one, the maps in rotation, powi 2 / 3 / other, powf, every reduction
    let mut longs: Vec<usize> = if thorough { vec![41, 47, 48, 63, 64, 65, 100, 127, 128, 129, 255, 256, 257, 1000, 1023, 1024, 1025, 4095, 4096, 4097, 8191, 8192, 8193, 9999, 10_000] }
                                else { vec![64, 65, 257, 1000, 4097, 9999, 10_000] };
    for _ in 0..(if thorough { 25 } else { 3 }) { longs.push(41 + r.below(9_960) as usize); }
    for (li, &n) in longs.iter().enumerate() {
        let sh = shapes_all(n);
        let shapes = [sh[sh.len() / 2], sh[(li + 1) % sh.len()]];
        for t in 0..4 {
            if !thorough && n > 2000 && (li + t) % 2 == 0 { continue; }
            let md = modes[(li + t) % 3];
            let (a, b) = (vals(r, n, md), vals(r, n, md));
            all_forms(out, tried, t, &a, &b, val(r, md), &shapes[..if thorough { 2 } else { 1 }]);
        }
        for k in 0..(if thorough { 29 } else { 4 }) {
            let row = &maps[(li * 4 + k) % 29];
            let am = vals(r, n, if k % 2 == 0 { row.4 } else { Mode::Special });
            one_map(out, tried, row, &am, Some(shapes[k % 2]));
        }
        let ap = vals(r, n, if li % 2 == 0 { Mode::Reals } else { Mode::Special });
        one_pow(out, tried, &ap, Some(2), Some(pexps[li % pexps.len()]), Some(shapes[0]));
        one_pow(out, tried, &ap, Some(3), None, Some(shapes[1]));
        one_pow(out, tried, &ap, Some(exps[li % exps.len()]), None, Some(shapes[0]));
        // reductions at this length
        let (ar, br) = (vals(r, n, Mode::Reals), vals(r, n, Mode::Reals));
        sum_dot_norm(out, tried, &ar, &br);
        let aw: Vec<f64> = (0..n).map(|_| wide(r, 400)).collect(); let bw: Vec<f64> = (0..n).map(|_| wide(r, 400)).collect();
        sum_dot_norm(out, tried, &aw, &bw);
        inf_norms(out, tried, &ar, &shapes);
        let l = 0.5;
        let ap: Vec<f64> = (0..n).map(|_| { let m = r.uniform(-l, l).exp(); if r.coin(0.5) { m } else { -m } }).collect();
        prod_signed(out, tried, &ap);
        for shift in [0.0, 705.0, -740.0, 1e300, -1.7e308] {
            let spread = *r.pick(&[1.0, 30.0, 800.0]);
            let al: Vec<f64> = (0..n).map(|_| { let x: f64 = shift + r.uniform(-spread, spread); if x.is_finite() { x } else { shift } }).collect();
            lse_lme(out, tried, &al);
        }
        // length mismatch at this length: one more, one fewer, a whole chunk fewer
        for k in [n + 1, n - 1, n - 8] {
            let b2 = vals(r, k, Mode::Ints); let t = li % 4; *tried += 3;
            let inp2 = format!("op={} lengths {} and {} a={} b={}", OPN[t], n, k, json_floats(&ar), json_floats(&b2)); crumb(&inp2);
            if let Ok(v) = vec_vec(t, li % 4, &ar, &b2) { out.push(Finding { class: "vec-op-vec:length-mismatch-accepted".into(), what: format!("returned {} values for operands of lengths {} and {}", v.len(), n, k), input: inp2.clone() }); }
            if let Ok(v) = vec_vec_assign(t, li % 2, &ar, &b2) { out.push(Finding { class: "vec-assign-vec:length-mismatch-accepted".into(), what: format!("returned {} values for operands of lengths {} and {}", v.len(), n, k), input: inp2.clone() }); }
            if let Ok(g) = catch(|| dot(&ar, &b2)) { out.push(Finding { class: "dot:length-mismatch-accepted".into(), what: format!("dot returned {:e} for lengths {} and {}", g, n, k), input: inp2.clone() }); }
        }
        if out.len() > 40 { return; }
    }
}
