//! C20 — covariance kernels (RBF, rational quadratic), scalar and matrix form.
use crate::libm;
use crate::util::*;
use compute::linalg::{Matrix, Vector};
use compute::predict::{Kernel, RBFKernel, RQKernel};

fn logu(r: &mut Rng, lo: f64, hi: f64) -> f64 { (r.uniform(lo.ln(), hi.ln())).exp() }
/// kernel parameters: log-uniform, or (one draw in four) one of the round values people actually type (0.5, 1, 2, 3, 10), exactly
fn param(r: &mut Rng) -> f64 { if r.coin(0.25) { *r.pick(&[0.5, 1.0, 2.0, 3.0, 10.0]) } else { logu(r, 1e-2, 1e2) } }
fn rec<R>(f: impl FnOnce() -> R) -> (libm::Table, Result<R, String>) { libm::start(); let r = catch(f); (libm::stop(), r) }
fn mat_out(m: &Matrix) -> Vec<f64> { let mut v = vec![m.nrows as f64, m.ncols as f64]; v.extend_from_slice(&m.data); v }
fn points(r: &mut Rng, n: usize) -> Vec<f64> {
    let k = r.below(4);
    (0..n).map(|_| match k { 0 => r.small_int(5), 1 => r.uniform(-1e3, 1e3), 2 => r.uniform(-3.0, 3.0), _ => r.normal() }).collect()
}

fn rbf_m(k: &RBFKernel, form: usize, xs: &[f64], ys: &[f64]) -> Matrix {
    let (xv, yv) = (Vector::new(xs.to_vec()), Vector::new(ys.to_vec()));
    match form {
        0 => k.forward(xv, yv),
        1 => k.forward(&xv, &yv),
        2 => k.forward(Matrix::new(xs.to_vec(), 1, xs.len() as i32), Matrix::new(ys.to_vec(), ys.len() as i32, 1)),
        _ => k.forward(&Matrix::new(xs.to_vec(), xs.len() as i32, 1), &Matrix::new(ys.to_vec(), 1, ys.len() as i32)),
    }
}
fn rq_m(k: &RQKernel, form: usize, xs: &[f64], ys: &[f64]) -> Matrix {
    let (xv, yv) = (Vector::new(xs.to_vec()), Vector::new(ys.to_vec()));
    match form {
        0 => k.forward(xv, yv),
        1 => k.forward(&xv, &yv),
        2 => k.forward(Matrix::new(xs.to_vec(), 1, xs.len() as i32), Matrix::new(ys.to_vec(), ys.len() as i32, 1)),
        _ => k.forward(&Matrix::new(xs.to_vec(), xs.len() as i32, 1), &Matrix::new(ys.to_vec(), 1, ys.len() as i32)),
    }
}

/// an argument of kind 0 = Vector, 1 = &Vector, 2 = Matrix, 3 = &Matrix holding `d` (r x c for the Matrix kinds) for BOTH point sets
fn rbf_p(k: &RBFKernel, kind: usize, (rx, cx, xs): (usize, usize, &[f64]), (ry, cy, ys): (usize, usize, &[f64])) -> Matrix {
    match kind {
        0 => k.forward(Vector::new(xs.to_vec()), Vector::new(ys.to_vec())),
        1 => k.forward(&Vector::new(xs.to_vec()), &Vector::new(ys.to_vec())),
        2 => k.forward(Matrix::new(xs.to_vec(), rx as i32, cx as i32), Matrix::new(ys.to_vec(), ry as i32, cy as i32)),
        _ => k.forward(&Matrix::new(xs.to_vec(), rx as i32, cx as i32), &Matrix::new(ys.to_vec(), ry as i32, cy as i32)),
    }
}
fn rq_p(k: &RQKernel, kind: usize, (rx, cx, xs): (usize, usize, &[f64]), (ry, cy, ys): (usize, usize, &[f64])) -> Matrix {
    match kind {
        0 => k.forward(Vector::new(xs.to_vec()), Vector::new(ys.to_vec())),
        1 => k.forward(&Vector::new(xs.to_vec()), &Vector::new(ys.to_vec())),
        2 => k.forward(Matrix::new(xs.to_vec(), rx as i32, cx as i32), Matrix::new(ys.to_vec(), ry as i32, cy as i32)),
        _ => k.forward(&Matrix::new(xs.to_vec(), rx as i32, cx as i32), &Matrix::new(ys.to_vec(), ry as i32, cy as i32)),
    }
}
/// a factorisation r * c = n (n >= 1), every divisor equally likely
fn shape_of(r: &mut Rng, n: usize) -> (usize, usize) {
    let ds: Vec<usize> = (1..=n).filter(|d| n % d == 0).collect();
    let d = *r.pick(&ds); (d, n / d)
}

pub fn gen(tier: &str, seed: u64, outdir: &str) {
    let thorough = tier == "thorough";
    let mut r = Rng::new(seed ^ 0xC20);
    let mut cs = Cases::new("C20");
    let k = if thorough { 8 } else { 1 };
    for i in 0..400 * k {
        let (var, ls, al) = (param(&mut r), param(&mut r), param(&mut r));
        let x = if i % 5 == 0 { r.small_int(20) } else { r.uniform(-1e3, 1e3) };
        let y = match i % 4 { 0 => x, 1 => x + r.uniform(-1.0, 1.0) * ls, 2 => x + r.uniform(-30.0, 30.0) * ls, _ => r.uniform(-1e3, 1e3) };
        let (t, e) = rec(|| { let kk = RBFKernel::new(var, ls); if i % 2 == 0 { kk.forward(x, y) } else { kk.forward(&x, &y) } });
        cs.push(app("CRbf", vec![libm_table(&t), Tm::F(var), Tm::F(ls), Tm::F(x), Tm::F(y), outcome_list(&e.map(|v| vec![v]))]), "rbf/scalar", x != y);
        let (t, e) = rec(|| { let kk = RQKernel::new(var, al, ls); if i % 2 == 0 { kk.forward(x, y) } else { kk.forward(&x, &y) } });
        cs.push(app("CRq", vec![libm_table(&t), Tm::F(var), Tm::F(al), Tm::F(ls), Tm::F(x), Tm::F(y), outcome_list(&e.map(|v| vec![v]))]), "rq/scalar", x != y);
    }
    let maxn = if thorough { 60 } else { 14 };
    for i in 0..60 * k {
        let (var, ls, al) = (param(&mut r), param(&mut r), param(&mut r));
        let (n, m) = (1 + r.below(maxn) as usize, 1 + r.below(maxn) as usize);
        // a few larger sets (33..40 points on one side or both: past the tile / unroll widths of the routines underneath)
        let (n, m) = if i % 20 == 19 { (1 + r.below(12) as usize, 33 + r.below(8) as usize) } else if i % 20 == 9 { (33 + r.below(8) as usize, 1 + r.below(12) as usize) } else { (n, m) };
        let xs = points(&mut r, n);
        let ys = if i % 3 == 0 { xs.clone() } else { points(&mut r, m) };
        let form = (i % 4) as usize;
        let (t, e) = rec(|| mat_out(&rbf_m(&RBFKernel::new(var, ls), form, &xs, &ys)));
        cs.push(app("CRbfM", vec![libm_table(&t), Tm::Nat(form as u64), Tm::F(var), Tm::F(ls), fl(&xs), fl(&ys), outcome_list(&e)]), &format!("rbf/matrix/form{}", form), xs.len() >= 2 || ys.len() >= 2);
        let (t, e) = rec(|| mat_out(&rq_m(&RQKernel::new(var, al, ls), form, &xs, &ys)));
        cs.push(app("CRqM", vec![libm_table(&t), Tm::Nat(form as u64), Tm::F(var), Tm::F(al), Tm::F(ls), fl(&xs), fl(&ys), outcome_list(&e)]), &format!("rq/matrix/form{}", form), xs.len() >= 2 || ys.len() >= 2);
    }
    // the plumbing on every argument kind, any Matrix shape (reshape(-1, 1) / reshape(1, -1) flatten it), and empty point sets (Vector kinds: panic)
    for i in 0..40 * k {
        let (var, ls, al) = (param(&mut r), param(&mut r), param(&mut r));
        let kind = (i % 4) as usize;
        let empty = kind < 2 && i % 16 < 2;   // kinds 0 and 1: one case in eight has an empty point set
        let (n, m) = (1 + r.below(maxn) as usize, 1 + r.below(maxn) as usize);
        let (n, m) = if empty { if i % 32 < 16 { (0, m) } else { (n, 0) } } else { (n, m) };
        let (xs, ys) = (points(&mut r, n), points(&mut r, m));
        let ((rx, cx), (ry, cy)) = if kind >= 2 { (shape_of(&mut r, n), shape_of(&mut r, m)) } else { ((1, n), (1, m)) };
        let (t, e) = rec(|| mat_out(&rbf_p(&RBFKernel::new(var, ls), kind, (rx, cx, &xs), (ry, cy, &ys))));
        cs.push(app("CRbfP", vec![libm_table(&t), Tm::Nat(kind as u64), Tm::F(var), Tm::F(ls), Tm::Nat(rx as u64), Tm::Nat(cx as u64), fl(&xs), Tm::Nat(ry as u64), Tm::Nat(cy as u64), fl(&ys), outcome_list(&e)]),
                &format!("rbf/plumbing/kind{}{}", kind, if empty { "/empty" } else { "" }), empty || n >= 2 || m >= 2);
        let (t, e) = rec(|| mat_out(&rq_p(&RQKernel::new(var, al, ls), kind, (rx, cx, &xs), (ry, cy, &ys))));
        cs.push(app("CRqP", vec![libm_table(&t), Tm::Nat(kind as u64), Tm::F(var), Tm::F(al), Tm::F(ls), Tm::Nat(rx as u64), Tm::Nat(cx as u64), fl(&xs), Tm::Nat(ry as u64), Tm::Nat(cy as u64), fl(&ys), outcome_list(&e)]),
                &format!("rq/plumbing/kind{}{}", kind, if empty { "/empty" } else { "" }), empty || n >= 2 || m >= 2);
    }
    // constructors: valid and invalid parameters
    for _ in 0..60 {
        let p: Vec<f64> = (0..3).map(|_| *r.pick(&[1.0, 0.5, 0.0, -0.0, -1.0, 1e-300, f64::INFINITY, -2.5, 3.0])).collect();
        let e = catch(|| { RBFKernel::new(p[0], p[1]); vec![] });
        cs.push(app("CRbfNew", vec![Tm::F(p[0]), Tm::F(p[1]), outcome_list(&e)]), "rbf/new", e.is_err());
        let e = catch(|| { RQKernel::new(p[0], p[1], p[2]); vec![] });
        cs.push(app("CRqNew", vec![Tm::F(p[0]), Tm::F(p[1]), Tm::F(p[2]), outcome_list(&e)]), "rq/new", e.is_err());
    }
    // ---- coverage audit: corners of the quantifier (own generator: the cases above stay what they were) ----
    let mut r2 = Rng::new(seed ^ 0xA1C20);
    let edge = [1.0000001e-2, 1.0, 99.99999];
    // scalar form at the corners of the parameter box: the ends of +-1e3, zeros of both signs, neighbours in binary64, the distance where exp underflows
    for (ci, &(x, y)) in [(-1e3, 1e3), (1e3, -1e3), (0.0, -0.0), (-0.0, 0.0), (1e3, f64::from_bits(1e3f64.to_bits() - 1)), (0.0, f64::from_bits(1)), (-1e3, -1e3)].iter().enumerate() {
        for &var in &edge { for &ls in &edge {
            let al = *r2.pick(&edge);
            let (t, e) = rec(|| { let kk = RBFKernel::new(var, ls); if ci % 2 == 0 { kk.forward(x, y) } else { kk.forward(&x, &y) } });
            cs.push(app("CRbf", vec![libm_table(&t), Tm::F(var), Tm::F(ls), Tm::F(x), Tm::F(y), outcome_list(&e.map(|v| vec![v]))]), "rbf/scalar/corner", x.to_bits() != y.to_bits());
            let (t, e) = rec(|| { let kk = RQKernel::new(var, al, ls); if ci % 2 == 0 { kk.forward(x, y) } else { kk.forward(&x, &y) } });
            cs.push(app("CRq", vec![libm_table(&t), Tm::F(var), Tm::F(al), Tm::F(ls), Tm::F(x), Tm::F(y), outcome_list(&e.map(|v| vec![v]))]), "rq/scalar/corner", x.to_bits() != y.to_bits());
        }}
    }
    for i in 0..40 * k {
        let (var, ls, al) = (*r2.pick(&edge), *r2.pick(&edge), *r2.pick(&edge));
        let x: f64 = *r2.pick(&[1e3, -1e3, 0.0, 999.5, -37.0]);
        let y = (x + (if x > 0.0 { -1.0 } else { 1.0 }) * ls * r2.uniform(36.0, 41.0)).max(-1e3).min(1e3);   // around 38.6 length scales: exp underflows
        let (t, e) = rec(|| { let kk = RBFKernel::new(var, ls); if i % 2 == 0 { kk.forward(x, y) } else { kk.forward(&x, &y) } });
        cs.push(app("CRbf", vec![libm_table(&t), Tm::F(var), Tm::F(ls), Tm::F(x), Tm::F(y), outcome_list(&e.map(|v| vec![v]))]), "rbf/scalar/underflow", true);
        let (t, e) = rec(|| { let kk = RQKernel::new(var, al, ls); if i % 2 == 0 { kk.forward(x, y) } else { kk.forward(&x, &y) } });
        cs.push(app("CRq", vec![libm_table(&t), Tm::F(var), Tm::F(al), Tm::F(ls), Tm::F(x), Tm::F(y), outcome_list(&e.map(|v| vec![v]))]), "rq/scalar/underflow", true);
    }
    // matrix form at the two ends of the size range (1 and 60 points, also at the quick tier) on the point sets where an expanded square would cancel:
    // clusters and regular grids far from the origin, exactly equal abscissae, the ends of +-1e3
    for (i, &(n, m)) in [(1usize, 1usize), (1, 60), (60, 1), (60, 2), (2, 60), (59, 3), (60, 60), (60, 60)].iter().enumerate() {
        let (var, ls, al) = if i % 2 == 0 { (*r2.pick(&edge), *r2.pick(&edge), *r2.pick(&edge)) } else { (param(&mut r2), param(&mut r2), param(&mut r2)) };
        let mut set = |r: &mut Rng, n: usize| -> Vec<f64> { match i % 4 {
            0 => { let c = r.uniform(-999.0, 999.0); (0..n).map(|_| c + r.uniform(-1.0, 1.0) * ls * *r.pick(&[1e-6, 1e-3, 1.0])).collect() }
            1 => { let h = ls * 0.5; let a = r.uniform(900.0, 1e3 - h * n as f64); (0..n).map(|j| a + h * j as f64).collect() }
            2 => (0..n).map(|j| *[-1e3, 1e3, 0.0, -0.0, 7.0, 7.0].get(j % 6).unwrap()).collect(),
            _ => (0..n).map(|_| r.small_int(3)).collect(),
        } };
        let xs = set(&mut r2, n);
        let ys = if n == m && i % 2 == 0 { xs.clone() } else { set(&mut r2, m) };
        let form = i % 4;
        let (t, e) = rec(|| mat_out(&rbf_m(&RBFKernel::new(var, ls), form, &xs, &ys)));
        cs.push(app("CRbfM", vec![libm_table(&t), Tm::Nat(form as u64), Tm::F(var), Tm::F(ls), fl(&xs), fl(&ys), outcome_list(&e)]), &format!("rbf/matrix/ends/form{}", form), true);
        let (t, e) = rec(|| mat_out(&rq_m(&RQKernel::new(var, al, ls), form, &xs, &ys)));
        cs.push(app("CRqM", vec![libm_table(&t), Tm::Nat(form as u64), Tm::F(var), Tm::F(al), Tm::F(ls), fl(&xs), fl(&ys), outcome_list(&e)]), &format!("rq/matrix/ends/form{}", form), true);
    }
    // empty point sets on every argument kind, on one side or on both (Vector kinds: no entries; Matrix kinds: the 0 x 0 Matrix::empty()): refused, by the
    // assertion on the sizes (Vectors) or inside the reshape (Matrix); two empty Vectors must not come back as a 0 x 0 result
    for kind in 0..4usize { for &(n, m) in &[(0usize, 0usize), (0, 1), (1, 0), (0, 5), (5, 0)] {
        let (var, ls, al) = (param(&mut r2), param(&mut r2), param(&mut r2));
        let (xs, ys) = (points(&mut r2, n), points(&mut r2, m));
        let shp = |n: usize| if kind >= 2 { if n == 0 { (0, 0) } else { (n, 1) } } else { (1, n) };
        let ((rx, cx), (ry, cy)) = (shp(n), shp(m));
        let (t, e) = rec(|| mat_out(&rbf_p(&RBFKernel::new(var, ls), kind, (rx, cx, &xs), (ry, cy, &ys))));
        cs.push(app("CRbfP", vec![libm_table(&t), Tm::Nat(kind as u64), Tm::F(var), Tm::F(ls), Tm::Nat(rx as u64), Tm::Nat(cx as u64), fl(&xs), Tm::Nat(ry as u64), Tm::Nat(cy as u64), fl(&ys), outcome_list(&e)]),
                &format!("rbf/plumbing/kind{}/empty-sets", kind), true);
        let (t, e) = rec(|| mat_out(&rq_p(&RQKernel::new(var, al, ls), kind, (rx, cx, &xs), (ry, cy, &ys))));
        cs.push(app("CRqP", vec![libm_table(&t), Tm::Nat(kind as u64), Tm::F(var), Tm::F(al), Tm::F(ls), Tm::Nat(rx as u64), Tm::Nat(cx as u64), fl(&xs), Tm::Nat(ry as u64), Tm::Nat(cy as u64), fl(&ys), outcome_list(&e)]),
                &format!("rq/plumbing/kind{}/empty-sets", kind), true);
    }}
    // constructors: NaN and -inf are not positive numbers
    for p in [[f64::NAN, 1.0, 1.0], [1.0, f64::NAN, 1.0], [1.0, 1.0, f64::NAN], [f64::NEG_INFINITY, 1.0, 1.0], [1.0, f64::NEG_INFINITY, 2.0], [2.0, 1.0, f64::NEG_INFINITY], [f64::NAN, f64::NAN, f64::NAN]] {
        let e = catch(|| { RBFKernel::new(p[0], p[1]); vec![] });
        cs.push(app("CRbfNew", vec![Tm::F(p[0]), Tm::F(p[1]), outcome_list(&e)]), "rbf/new/nan", e.is_err());
        let e = catch(|| { RQKernel::new(p[0], p[1], p[2]); vec![] });
        cs.push(app("CRqNew", vec![Tm::F(p[0]), Tm::F(p[1]), Tm::F(p[2]), outcome_list(&e)]), "rq/new/nan", e.is_err());
    }
    cs.write(outdir, 150, "kernel parameters log-uniform in (1e-2,1e2); scalar pairs in +-1e3 (equal, within a length scale, far apart, unrelated), owned and borrowed; matrix form on point sets of 1..14 (quick) / 1..60 (thorough) points passed as Vector or Matrix (row or column shaped), owned or borrowed, equal and different sets; the same through the composed component models on every argument kind with Matrix arguments of any shape r x c (flattened by reshape(-1, 1) / reshape(1, -1)) and empty Vector point sets (panic), both empty included; constructors with valid and invalid parameters (zeros of both signs, NaN, infinities); the corners of the parameter box with scalar pairs at the ends of +-1e3, one ulp apart and around the distance where exp underflows, and point sets of exactly 1 and 60 points (clusters and grids far from the origin, equal abscissae) at both tiers; every case carries the libm calls (exp, pow); non-trivial = distinct arguments (scalar), at least 2 points (matrix), rejected parameters (constructors); distinct by hash");
}

fn jacobi_min_eig(a: &mut Vec<Vec<f64>>) -> f64 {
    let n = a.len();
    for _sweep in 0..60 {
        let mut off = 0.0; for i in 0..n { for j in 0..n { if i != j { off += a[i][j] * a[i][j]; } } }
        let mut dg = 0.0; for i in 0..n { dg += a[i][i] * a[i][i]; }
        if off <= 1e-30 * dg.max(1e-300) { break; }
        for p in 0..n { for q in p + 1..n {
            if a[p][q] == 0.0 { continue; }
            let theta = (a[q][q] - a[p][p]) / (2.0 * a[p][q]);
            let t = theta.signum() / (theta.abs() + (theta * theta + 1.0).sqrt());
            let t = if theta == 0.0 { 1.0 } else { t };
            let c = 1.0 / (t * t + 1.0).sqrt(); let s = t * c;
            for k in 0..n { let (akp, akq) = (a[k][p], a[k][q]); a[k][p] = c * akp - s * akq; a[k][q] = s * akp + c * akq; }
            for k in 0..n { let (apk, aqk) = (a[p][k], a[q][k]); a[p][k] = c * apk - s * aqk; a[q][k] = s * apk + c * aqk; }
        }}
    }
    (0..n).map(|i| a[i][i]).fold(f64::INFINITY, f64::min)
}

fn next_up(x: f64) -> f64 { if x == 0.0 { f64::from_bits(1) } else if x > 0.0 { f64::from_bits(x.to_bits() + 1) } else { f64::from_bits(x.to_bits() - 1) } }
fn next_down(x: f64) -> f64 { -next_up(-x) }
fn add(out: &mut Vec<Finding>, class: &str, what: String, input: String) { if !out.iter().any(|f| f.class == class) { out.push(Finding { class: class.into(), what, input }); } }

/// how the two point sets are handed to the matrix form: `Form(f)` = the four row / column conventions of `rbf_m`; `Shaped(kind, shape of xs, shape of ys)` =
/// argument kind 0..3 of `rbf_p` with a Matrix of any shape r x c (the Gram matrix is evaluated with the first shape on both sides)
#[derive(Clone, Copy)]
enum How { Form(usize), Shaped(usize, (usize, usize), (usize, usize)) }
fn eval_m(name: &str, how: How, var: f64, al: f64, ls: f64, xs: &[f64], ys: &[f64], gram: bool) -> Result<Matrix, String> {
    catch(|| match how {
        How::Form(form) => if name == "rbf" { rbf_m(&RBFKernel::new(var, ls), form, xs, ys) } else { rq_m(&RQKernel::new(var, al, ls), form, xs, ys) },
        How::Shaped(kind, sx, sy) => {
            let sy = if gram { sx } else { sy };
            if name == "rbf" { rbf_p(&RBFKernel::new(var, ls), kind, (sx.0, sx.1, xs), (sy.0, sy.1, ys)) } else { rq_p(&RQKernel::new(var, al, ls), kind, (sx.0, sx.1, xs), (sy.0, sy.1, ys)) }
        }
    })
}

/// the matrix-form clauses on one pair of point sets, both kernels: shape, entry = scalar form, Gram matrix of `xs` symmetric and positive semi-definite
fn check_sets(out: &mut Vec<Finding>, tried: &mut u64, r: &mut Rng, how: How, var: f64, al: f64, ls: f64, xs: &[f64], ys: &[f64]) {
    let (n, m) = (xs.len(), ys.len());
    let hows = match how { How::Form(f) => format!("form={}", f), How::Shaped(k, sx, sy) => format!("kind={} xs_shape={}x{} ys_shape={}x{}", k, sx.0, sx.1, sy.0, sy.1) };
    for name in ["rbf", "rq"] {
        *tried += 1;
        let inp = format!("kernel={} {} var={:e} alpha={:e} length_scale={:e} xs={} ys={}", name, hows, var, al, ls, json_floats(xs), json_floats(ys));
        crumb(&inp);
        let sc = |a: f64, b: f64| if name == "rbf" { RBFKernel::new(var, ls).forward(a, b) } else { RQKernel::new(var, al, ls).forward(a, b) };
        let got = eval_m(name, how, var, al, ls, xs, ys, false);
        match got {
            Err(e) => add(out, &format!("{}:matrix-form-panics", name), format!("matrix form panicked: {}", e), inp.clone()),
            Ok(g) => {
                if g.nrows != n || g.ncols != m { add(out, &format!("{}:matrix-shape", name), format!("matrix form is {}x{}, expected {}x{}", g.nrows, g.ncols, n, m), inp.clone()); continue; }
                for i in 0..n { for j in 0..m {
                    let (a, b) = (g[[i, j]], sc(xs[i], ys[j]));
                    // The matrix form takes the difference x_i - y_j first (repaired code), as the scalar form does: the two are the same chain of
                    // correctly rounded operations, so only rounding-level differences are granted (no cancellation allowance any more).  What any
                    // implementation of that chain may differ by: a few ulp in the squared distance, amplified by the exponent t = (x-y)^2 / (2 l^2) through
                    // exp (relative t * eps) or by alpha through powf, plus a few ulp of exp / powf / the product themselves.
                    let t = if name == "rbf" { (xs[i] - ys[j]).powi(2) / (2.0 * ls * ls) } else { 0.0 };
                    // results in the subnormal range are quantised to 2^-1074: exp / powf may each be off by one such unit before the
                    // multiplication by var (seen at thorough: k = 3.3e-312 with var = 3 differs by 3 units), so the allowance has an absolute floor
                    let tol = b.abs() * 64.0 * f64::EPSILON * (1.0 + al + t.min(800.0)) + (2.0 * var + 2.0) * f64::from_bits(1);
                    if !((a - b).abs() <= tol) { add(out, &format!("{}:matrix-entry-differs-from-scalar", name), format!("entry ({},{}) = {:e}, scalar form {:e}", i, j, a, b), inp.clone()); }
                }}
            }
        }
        // Gram matrix on xs: symmetric, PSD (Cholesky-free: LDL^T in f64 with a floor of -c n eps var)
        let g = eval_m(name, how, var, al, ls, xs, xs, true);
        if let Ok(g) = g {
            if g.nrows != n || g.ncols != n { add(out, &format!("{}:matrix-shape", name), format!("Gram matrix is {}x{}, expected {}x{}", g.nrows, g.ncols, n, n), inp.clone()); continue; }
            let mut a: Vec<Vec<f64>> = (0..n).map(|i| (0..n).map(|j| g[[i, j]]).collect()).collect();
            let mut sym = true;
            for i in 0..n { for j in 0..n { if (a[i][j] - a[j][i]).abs() > 1e-9 * var { sym = false; } } }
            if !sym { add(out, &format!("{}:gram-asymmetric", name), "Gram matrix is not symmetric".into(), inp.clone()); }
            // quadratic forms with random and adversarial (alternating) coefficient vectors
            let floor = -1e-9 * var * (n as f64) * (n as f64);
            for t in 0..6 {
                let c: Vec<f64> = (0..n).map(|i| if t == 0 { if i % 2 == 0 { 1.0 } else { -1.0 } } else { r.uniform(-1.0, 1.0) }).collect();
                let mut q = 0.0; for i in 0..n { for j in 0..n { q += c[i] * a[i][j] * c[j]; } }
                if !(q >= floor) { add(out, &format!("{}:gram-not-psd", name), format!("c^T K c = {:e} < 0 for a coefficient vector c", q), inp.clone()); break; }
            }
            // smallest eigenvalue by cyclic Jacobi (backward stable: error ~ n*eps*||K||); floor -1e-10*n^2*var
            let lam = jacobi_min_eig(&mut a);
            let lfloor = -1e-10 * var * (n * n) as f64;
            if !(lam >= lfloor) { add(out, &format!("{}:gram-not-psd", name), format!("smallest eigenvalue of the Gram matrix is {:e} (variance {:e}, {} points)", lam, var, n), inp.clone()); }
        }
    }
}

pub fn oracle(tier: &str, seed: u64) -> (u64, Vec<Finding>) {
    let thorough = tier == "thorough";
    let mut r = Rng::new(seed ^ 0x0C20);
    let mut out: Vec<Finding> = vec![]; let mut tried = 0u64;
    let iters = if thorough { 40000 } else { 4000 };
    for _ in 0..iters {
        let (var, ls, al) = (param(&mut r), param(&mut r), param(&mut r));
        let x = r.uniform(-1e3, 1e3);
        let d1 = r.uniform(0.0, 8.0) * ls; let d2 = d1 + r.uniform(0.0, 8.0) * ls;
        let ks: [(&str, Box<dyn Fn(f64, f64) -> f64>); 2] = [("rbf", Box::new(|a, b| RBFKernel::new(var, ls).forward(a, b))), ("rq", Box::new(|a, b| RQKernel::new(var, al, ls).forward(a, b)))];
        for (name, k) in ks.iter() {
            tried += 1;
            let inp = format!("kernel={} var={:e} alpha={:e} length_scale={:e} x={:e} d1={:e} d2={:e}", name, var, al, ls, x, d1, d2);
            crumb(&inp);
            let (k0, ka, kb) = (k(x, x), k(x, x + d1), k(x, x + d2));
            let (kas, kbs) = (k(x + d1, x), k(x - d1, x));
            let ulp = 8.0 * f64::EPSILON;
            if !(k0 == var) { add(&mut out, &format!("{}:diag-not-variance", name), format!("k(x,x) = {:e}, variance {:e}", k0, var), inp.clone()); }
            if !(ka > 0.0 || (ka == 0.0 && d1 > 30.0 * ls)) { add(&mut out, &format!("{}:not-positive", name), format!("k = {:e} at distance {:e}", ka, d1), inp.clone()); }
            if !(ka <= var * (1.0 + ulp)) { add(&mut out, &format!("{}:exceeds-variance", name), format!("k(x,x+d) = {:e} > variance {:e} at distance d = {:e}", ka, var, d1), inp.clone()); }
            if !(kb <= ka * (1.0 + ulp)) { add(&mut out, &format!("{}:increasing-in-distance", name), format!("k at distance {:e} is {:e} but at the larger distance {:e} it is {:e}", d1, ka, d2, kb), inp.clone()); }
            let rel = |a: f64, b: f64| (a - b).abs() <= 1e-9 * a.abs().max(b.abs()) + 1e-300;
            if !rel(ka, kas) || !rel(ka, kbs) { add(&mut out, &format!("{}:asymmetric", name), format!("k(x,x+d) = {:e}, k(x+d,x) = {:e}, k(x-d,x) = {:e}", ka, kas, kbs), inp.clone()); }
        }
    }
    // matrix form: shape, entry = scalar form, Gram symmetric PSD
    let sets = if thorough { 1500 } else { 200 };
    for it in 0..sets {
        let (var, ls, al) = (param(&mut r), param(&mut r), param(&mut r));
        // one set in eight is large (up to 70 points: beyond any internal tile / unroll width of the transposes and products underneath)
        let big = it % 8 == 5;
        let (n, m) = (1 + r.below(if big { 70 } else if thorough { 60 } else { 20 }) as usize, 1 + r.below(if big { 70 } else if thorough { 60 } else { 20 }) as usize);
        let scale = if it % 2 == 0 { ls } else { 1.0 };
        let xs: Vec<f64> = (0..n).map(|_| r.uniform(-4.0, 4.0) * scale).collect();
        let ys: Vec<f64> = (0..m).map(|_| r.uniform(-4.0, 4.0) * scale).collect();
        let form = (it % 4) as usize;
        check_sets(&mut out, &mut tried, &mut r, How::Form(form), var, al, ls, &xs, &ys);
    }
    // invalid parameters must be rejected
    for p in [(0.0, 1.0, 1.0), (-1.0, 1.0, 1.0), (1.0, 0.0, 1.0), (1.0, -2.0, 1.0), (1.0, 1.0, 0.0), (1.0, 1.0, -1.0)] {
        tried += 1;
        if catch(|| RQKernel::new(p.0, p.1, p.2)).is_ok() { add(&mut out, "rq:invalid-parameters-accepted", format!("RQKernel::new{:?} did not panic", p), format!("{:?}", p)); }
        if (p.0 <= 0.0 || p.2 <= 0.0) && catch(|| RBFKernel::new(p.0, p.2)).is_ok() { add(&mut out, "rbf:invalid-parameters-accepted", format!("RBFKernel::new({},{}) did not panic", p.0, p.2), format!("{:?}", p)); }
    }
    // ---- coverage audit: the rest of the quantifier (own generator, so that the evaluation points above stay what they were) ----
    let mut r2 = Rng::new(seed ^ 0xA0C20);
    // (1) scalar form, owned AND borrowed, at the corners of the parameter box, for pairs anywhere in +-1e3 (coincident, one ulp apart, within a length
    //     scale, around the distance where exp underflows (38.6 length scales), far apart, the two ends of the range), zero of either sign
    let edge = [1.0000001e-2, 1.0, 99.99999];
    let mut boxes: Vec<(f64, f64, f64)> = vec![];
    for &v in &edge { for &l in &edge { for &a in &edge { boxes.push((v, l, a)); } } }
    for _ in 0..(if thorough { 400 } else { 40 }) { boxes.push((param(&mut r2), param(&mut r2), param(&mut r2))); }
    let steps = [0.0, 1e-12, 1e-8, 1e-4, 1e-2, 0.5, 1.0, 3.0, 8.0, 16.0, 20.0, 26.0, 27.3, 30.0, 36.0, 37.0, 38.0, 38.5, 38.6, 38.7, 39.0, 40.0, 45.0, 60.0, 100.0, 1e3, 1e4, 1e5, 2e5];
    for &(var, ls, al) in &boxes {
        let bases = [0.0, -0.0, 1e3, -1e3, r2.uniform(-1e3, 1e3), r2.small_int(1000), r2.uniform(-1.0, 1.0) * ls];
        for &x in &bases {
            let dir = if x > 0.0 { -1.0 } else { 1.0 };   // walk towards the interior so that every y stays in +-1e3
            // the chain of second arguments: x itself, its neighbours in binary64, then x + dir * t * ls, clipped to the range
            let mut chain: Vec<f64> = vec![x, if dir > 0.0 { next_up(x) } else { next_down(x) }];
            for &t in &steps { let y = x + dir * t * ls; if y.abs() <= 1e3 { chain.push(y); } }
            chain.push(if dir > 0.0 { 1e3 } else { -1e3 });
            chain.sort_by(|a, b| (a - x).abs().partial_cmp(&(b - x).abs()).unwrap());
            for name in ["rbf", "rq"] {
                tried += 1;
                let inp = format!("kernel={} var={:e} alpha={:e} length_scale={:e} x={:e} ys={}", name, var, al, ls, x, json_floats(&chain));
                crumb(&inp);
                let k = |a: f64, b: f64| if name == "rbf" { RBFKernel::new(var, ls).forward(a, b) } else { RQKernel::new(var, al, ls).forward(a, b) };
                let kr = |a: f64, b: f64| if name == "rbf" { RBFKernel::new(var, ls).forward(&a, &b) } else { RQKernel::new(var, al, ls).forward(&a, &b) };
                let ulp = 8.0 * f64::EPSILON;
                let mut prev: Option<(f64, f64)> = None;
                for &y in &chain {
                    let d = (y - x).abs();
                    let (kxy, kyx) = (k(x, y), k(y, x));
                    if kr(x, y).to_bits() != kxy.to_bits() || kr(y, x).to_bits() != kyx.to_bits() { add(&mut out, &format!("{}:borrowed-differs-from-owned", name), format!("forward(&x,&y) = {:e}, forward(x,y) = {:e} at y = {:e}", kr(x, y), kxy, y), inp.clone()); }
                    if d == 0.0 && !(kxy == var) { add(&mut out, &format!("{}:diag-not-variance", name), format!("k(x,x) = {:e}, variance {:e}", kxy, var), inp.clone()); }
                    if !(kxy > 0.0 || (kxy == 0.0 && d > 30.0 * ls)) { add(&mut out, &format!("{}:not-positive", name), format!("k = {:e} at distance {:e}", kxy, d), inp.clone()); }
                    if !(kxy <= var * (1.0 + ulp)) { add(&mut out, &format!("{}:exceeds-variance", name), format!("k(x,y) = {:e} > variance {:e} at distance {:e}", kxy, var, d), inp.clone()); }
                    let rel = |a: f64, b: f64| (a - b).abs() <= 1e-9 * a.abs().max(b.abs()) + 1e-300;
                    if !rel(kxy, kyx) { add(&mut out, &format!("{}:asymmetric", name), format!("k(x,y) = {:e}, k(y,x) = {:e} at y = {:e}", kxy, kyx, y), inp.clone()); }
                    if let Some((dp, kp)) = prev { if !(kxy <= kp * (1.0 + ulp)) { add(&mut out, &format!("{}:increasing-in-distance", name), format!("k at distance {:e} is {:e} but at the larger distance {:e} it is {:e}", dp, kp, d, kxy), inp.clone()); } }
                    prev = Some((d, kxy));
                }
            }
        }
    }
    // (2) matrix form on the point sets the quantifier allows but the sets above never are: anywhere in +-1e3, regular grids far from the origin (time
    //     stamps), integer abscissae, exactly equal and nearly equal abscissae, the ends of the range, 1 and 60 points, Matrix arguments of any shape
    let wide = if thorough { 600 } else { 96 };
    for it in 0..wide {
        let (var, ls, al) = if it % 6 == 0 { *r2.pick(&boxes[..27]) } else { (param(&mut r2), param(&mut r2), param(&mut r2)) };
        let size = |r: &mut Rng| -> usize { match r.below(6) { 0 => 1, 1 => 2, 2 => 60, 3 => 59, _ => 1 + r.below(if thorough { 60 } else { 24 }) as usize } };
        let (n, m) = (size(&mut r2), size(&mut r2));
        let style = it % 8;
        let set = |r: &mut Rng, n: usize| -> Vec<f64> {
            match style {
                0 => (0..n).map(|_| r.uniform(-1e3, 1e3)).collect(),
                1 => { let h = ls * *r.pick(&[0.1, 0.5, 1.0, 2.0]); let a = r.uniform(-1e3, 1e3 - h * n as f64).max(-1e3); (0..n).map(|i| (a + h * i as f64).min(1e3)).collect() }   // regular grid
                2 => (0..n).map(|_| r.small_int(1000)).collect(),
                3 => (0..n).map(|_| r.small_int(3)).collect(),                                                                     // many exactly equal abscissae
                4 => { let c: Vec<f64> = (0..3).map(|_| r.uniform(-999.0, 999.0)).collect(); (0..n).map(|_| *r.pick(&c) + r.uniform(-1.0, 1.0) * ls * *r.pick(&[1e-9, 1e-6, 1e-3, 1.0])).collect() }   // clusters
                5 => (0..n).map(|i| *[-1e3, 1e3, 0.0, -0.0, 999.99, -999.99].get(i % 6).unwrap()).collect(),                      // the ends of the range, zeros of both signs
                6 => { let a = r.uniform(-1e3, 1e3); (0..n).map(|i| if i % 2 == 0 { a } else { r.uniform(-1e3, 1e3) }).collect() }  // one abscissa repeated
                _ => (0..n).map(|_| r.uniform(-40.0, 40.0) * ls).collect(),                                                        // out to the underflow of exp
            }
        };
        let xs = set(&mut r2, n);
        let ys = if it % 3 == 0 { xs.clone() } else { set(&mut r2, m) };
        let how = if it % 2 == 0 { How::Form(((it / 2) % 4) as usize) } else { How::Shaped(((it / 2) % 4) as usize, shape_of(&mut r2, xs.len()), shape_of(&mut r2, ys.len())) };
        check_sets(&mut out, &mut tried, &mut r2, how, var, al, ls, &xs, &ys);
    }
    // (3) parameters that are not positive numbers must be rejected (either sign of zero, NaN, -inf)
    for bad in [-0.0, f64::NAN, f64::NEG_INFINITY, -1e-300] {
        for pos in 0..3 {
            tried += 1;
            let mut p = [1.0, 1.0, 1.0]; p[pos] = bad;
            if catch(|| RQKernel::new(p[0], p[1], p[2])).is_ok() { add(&mut out, "rq:invalid-parameters-accepted", format!("RQKernel::new{:?} did not panic", p), format!("{:?}", p)); }
            if pos != 1 && catch(|| RBFKernel::new(p[0], p[2])).is_ok() { add(&mut out, "rbf:invalid-parameters-accepted", format!("RBFKernel::new({},{}) did not panic", p[0], p[2]), format!("{:?}", p)); }
        }
    }
    (tried, out)
}
