//! C14 — polynomial regression: case generation for the Coq correspondence and the failure-search oracle.
//!
//! The inner linear solve (`invert_matrix`) is not modelled on the Coq side: for every `fit` the harness recomputes the
//! argument the implementation passes to it with the crate's own public `vandermonde` and `xtx`, calls the crate's public
//! `invert_matrix` on it and records (argument bits, result bits | panic) in the case (`Call arg res` / `NoCall`).
//!
//! End-to-end family (`CFitE`, `CSeqE`): the same inputs and outcomes WITHOUT any record; the Coq side computes the
//! inner solve with C01's executable model of `invert_matrix` (Model/SolveInst.v), so `fit` is reproduced whole.
use crate::util::*;
use compute::linalg::{invert_matrix, vandermonde, xtx};
use compute::predict::PolynomialRegressor;

// ---------------------------------------------------------------------------------------------
// input families
fn uniform_x(r: &mut Rng, n: usize) -> Vec<f64> { (0..n).map(|_| r.uniform(-2.0, 2.0)).collect() }
fn clustered_x(r: &mut Rng, n: usize, centres: usize) -> Vec<f64> {
    let cs: Vec<f64> = (0..centres.max(1)).map(|_| r.uniform(-1.9, 1.9)).collect();
    let w = *r.pick(&[0.1, 0.03, 0.01]);
    (0..n).map(|i| (cs[i % cs.len()] + w * (r.unit() - 0.5)).clamp(-2.0, 2.0)).collect()
}
fn chebyshev_x(n: usize) -> Vec<f64> {
    (0..n).map(|i| 2.0 * ((2 * i + 1) as f64 * std::f64::consts::PI / (2 * n) as f64).cos()).collect()
}
/// multiples of 1/4 in [-2, 2] (17 distinct values; powers up to 6 and their sums are exact in binary64)
fn quarter_x(r: &mut Rng, n: usize) -> Vec<f64> { (0..n).map(|_| r.range(-8, 8) as f64 / 4.0).collect() }
fn integer_x(r: &mut Rng, n: usize) -> Vec<f64> { (0..n).map(|_| r.range(-2, 2) as f64).collect() }
fn abscissae(r: &mut Rng, fam: usize, n: usize, k: usize) -> (Vec<f64>, &'static str) {
    match fam % 5 {
        0 => (uniform_x(r, n), "uniform"),
        1 => { let c = k + 1 + r.below(3) as usize; (clustered_x(r, n, c), "clustered") }
        2 => (chebyshev_x(n), "chebyshev"),
        3 => (quarter_x(r, n), "quarter-integer"),
        _ => (integer_x(r, n), "integer"),
    }
}
fn poly_at(c: &[f64], x: f64) -> f64 { let mut s = 0.0; let mut p = 1.0; for ci in c { s += ci * p; p *= x; } s }
fn responses(r: &mut Rng, x: &[f64], k: usize, integer: bool) -> (Vec<f64>, Vec<f64>, f64) {
    let c0: Vec<f64> = (0..k).map(|_| if integer { r.small_int(5) } else { r.uniform(-3.0, 3.0) }).collect();
    let scale = if integer { 0.0 } else { *r.pick(&[0.0, 1e-9, 1e-3, 0.1, 1.0, 10.0, 1e4]) };
    let y = x.iter().map(|&v| poly_at(&c0, v) + if scale == 0.0 { 0.0 } else { scale * r.normal() }).collect();
    (y, c0, scale)
}
const SPECIALS: [f64; 12] = [0.0, -0.0, f64::INFINITY, f64::NEG_INFINITY, f64::NAN, 5e-324, -5e-324, 2.2250738585072014e-308, 1.0, -1.0, 1e300, -1e-300];

// ---------------------------------------------------------------------------------------------
// the record of the inner solve
fn inv_record(k: usize, x: &[f64], y: &[f64]) -> Tm {
    if x.len() != y.len() { return Tm::Raw("NoCall".into()); }
    let g = catch(|| { let xv = vandermonde(x, k); xtx(&xv, x.len()) });
    match g {
        Err(_) => Tm::Raw("NoCall".into()),
        Ok(g) => { let res = catch(|| invert_matrix(&g)); app("Call", vec![fl(&g), outcome_list(&res)]) }
    }
}
fn regressor(k: usize) -> PolynomialRegressor {
    if k == 0 { let mut p = PolynomialRegressor::new(0); p.coef = vec![]; p } else { PolynomialRegressor::new(k - 1) }
}
fn push_fit(cs: &mut Cases, k: usize, x: &[f64], y: &[f64], tag: &str) {
    let res = catch(|| { let mut p = regressor(k); p.fit(x, y); p.coef.clone() });
    let nonconst = x.iter().any(|v| v.to_bits() != x[0].to_bits()) && y.iter().any(|v| v.to_bits() != y[0].to_bits());
    let t = format!("{}/{}", tag, if res.is_ok() { "value" } else { "panic" });
    cs.push(app("CFit", vec![Tm::Nat(k as u64), fl(x), fl(y), inv_record(k, x, y), outcome_list(&res)]), &t, x.len() >= 3 && nonconst);
    // end to end: no record, the inner solve is computed by C01's model on the Coq side
    cs.push(app("CFitE", vec![Tm::Nat(k as u64), fl(x), fl(y), outcome_list(&res)]), &format!("e2e-{}", t), x.len() >= 3 && nonconst);
}

pub fn gen(tier: &str, seed: u64, outdir: &str) {
    let mut r = Rng::new(seed);
    let mut cs = Cases::new("C14");
    let thorough = tier == "thorough";
    // 1. vandermonde: every (len, n) in a small box, special values, exponents up to 40
    for len in 0..=4 { for n in 0..=8 {
        let x: Vec<f64> = (0..len).map(|_| if r.coin(0.3) { *r.pick(&SPECIALS) } else { r.uniform(-2.0, 2.0) }).collect();
        let res = catch(|| vandermonde(&x, n));
        cs.push(app("CVander", vec![fl(&x), Tm::Nat(n as u64), outcome_list(&res)]), "vandermonde", len >= 1 && n >= 3);
    }}
    for _ in 0..(if thorough { 200 } else { 30 }) {
        let len = 1 + r.below(6) as usize; let n = r.below(41) as usize;
        let x: Vec<f64> = (0..len).map(|_| if r.coin(0.15) { *r.pick(&SPECIALS) } else { r.uniform(-2.0, 2.0) }).collect();
        let res = catch(|| vandermonde(&x, n));
        cs.push(app("CVander", vec![fl(&x), Tm::Nat(n as u64), outcome_list(&res)]), "vandermonde/high-power", n >= 3);
    }
    // 2. predict: every coefficient length 0..=9, special values among coefficients and points
    for it in 0..(if thorough { 4000 } else { 400 }) {
        let k = it % 10; let m = r.below(7) as usize;
        let special = it % 4 == 0;
        let coef: Vec<f64> = (0..k).map(|_| if special && r.coin(0.3) { *r.pick(&SPECIALS) } else if r.coin(0.3) { r.small_int(6) } else { r.uniform(-3.0, 3.0) }).collect();
        let x: Vec<f64> = (0..m).map(|_| if special && r.coin(0.3) { *r.pick(&SPECIALS) } else { r.uniform(-2.0, 2.0) }).collect();
        let res = catch(|| { let mut p = PolynomialRegressor::new(0); p.coef = coef.clone(); p.predict(&x) });
        cs.push(app("CPredict", vec![fl(&coef), fl(&x), outcome_list(&res)]), if special { "predict/special" } else { "predict" }, k >= 2 && m >= 1);
    }
    // 3. fit: degrees 0..=6 x 5 abscissa families x n = k .. k+16 (every residue of n), then random n
    for deg in 0..=6usize { let k = deg + 1; for fam in 0..5 {
        let top = if thorough { 24 } else { 9 };
        for dn in 0..top {
            let n = k + dn;
            let (x, fname) = abscissae(&mut r, fam, n, k);
            let ic = r.coin(0.5); let (y, _, _) = responses(&mut r, &x, k, fam >= 3 && ic);
            push_fit(&mut cs, k, &x, &y, &format!("fit/{}", fname));
        }
    }}
    for _ in 0..(if thorough { 4000 } else { 300 }) {
        let k = 1 + r.below(7) as usize; let n = k + r.below(if thorough { 300 } else { 120 }) as usize;
        let fam = r.below(5) as usize;
        let (x, fname) = abscissae(&mut r, fam, n, k);
        let ic = r.coin(0.5); let (y, _, _) = responses(&mut r, &x, k, fam >= 3 && ic);
        push_fit(&mut cs, k, &x, &y, &format!("fit/{}", fname));
    }
    let bigs: &[usize] = if thorough { &[500, 1000, 1500, 2000, 2000, 2000] } else { &[700, 2000] };
    for &n in bigs {
        let k = 1 + r.below(7) as usize; let fam = r.below(3) as usize;
        let (x, _) = abscissae(&mut r, fam, n, k);
        let (y, _, _) = responses(&mut r, &x, k, false);
        push_fit(&mut cs, k, &x, &y, "fit/large");
    }
    // 4. fit outside the property's quantifier: fewer points than coefficients, repeated abscissae, constant data,
    //    special values, k = 0 (coef emptied through the public field), length mismatch, no data
    for it in 0..(if thorough { 3000 } else { 300 }) {
        let k = r.below(6) as usize;
        let n = r.below(8) as usize;
        let m = if it % 3 == 0 { r.below(8) as usize } else { n };
        let x: Vec<f64> = match it % 5 { 0 => integer_x(&mut r, n), 1 => vec![r.uniform(-2.0, 2.0); n], 2 => (0..n).map(|_| if r.coin(0.25) { *r.pick(&SPECIALS) } else { r.uniform(-2.0, 2.0) }).collect(), _ => uniform_x(&mut r, n) };
        let y: Vec<f64> = (0..m).map(|_| if it % 5 == 2 && r.coin(0.2) { *r.pick(&SPECIALS) } else { r.uniform(-5.0, 5.0) }).collect();
        push_fit(&mut cs, k, &x, &y, if n != m { "fit-malformed/length-mismatch" } else if k == 0 || n == 0 { "fit-malformed/empty" } else if n < k { "fit-degenerate/underdetermined" } else { "fit-degenerate/other" });
    }
    // 5. programs: new(deg), then fits / predicts / assignments to the public coef field
    for _ in 0..(if thorough { 3000 } else { 300 }) {
        let deg = r.below(5) as usize;
        let nops = 1 + r.below(6) as usize;
        let mut ops: Vec<(u8, Vec<f64>, Vec<f64>)> = vec![];
        for _ in 0..nops {
            match r.below(10) {
                0..=3 => { let n = 1 + r.below(12) as usize; let x = if r.coin(0.5) { uniform_x(&mut r, n) } else { quarter_x(&mut r, n) };
                           let m = if r.coin(0.06) { n + 1 } else { n }; let y = (0..m).map(|_| r.uniform(-5.0, 5.0)).collect(); ops.push((0, x, y)); }
                4..=7 => { let m = r.below(5) as usize; ops.push((1, uniform_x(&mut r, m), vec![])); }
                _ => { let l = r.below(6) as usize; ops.push((2, (0..l).map(|_| r.small_int(4)).collect(), vec![])); }
            }
        }
        // run the implementation; record each fit's inner solve with the coefficient count current at that point
        let mut recs: Vec<Tm> = vec![];
        { // dry pass for the records (coef length evolves only through assignments)
            let mut k = deg + 1;
            for (kind, a, b) in &ops { match kind { 0 => recs.push(inv_record(k, a, b)), 2 => { k = a.len(); recs.push(Tm::Raw("NoCall".into())) } _ => recs.push(Tm::Raw("NoCall".into())) } }
        }
        let res = catch(|| {
            let mut p = PolynomialRegressor::new(deg); let mut out: Vec<f64> = vec![];
            for (kind, a, b) in &ops { match kind { 0 => { p.fit(a, b); out.extend_from_slice(&p.coef); } 1 => out.extend(p.predict(a)), _ => { p.coef = a.clone(); } } }
            out
        });
        let terms: Vec<Tm> = ops.iter().zip(recs).map(|((kind, a, b), rc)| match kind { 0 => app("KFit", vec![fl(a), fl(b), rc]), 1 => app("KPredict", vec![fl(a)]), _ => app("KSet", vec![fl(a)]) }).collect();
        let nfit = ops.iter().filter(|o| o.0 == 0).count();
        cs.push(app("CSeq", vec![Tm::Nat(deg as u64), Tm::L(terms), outcome_list(&res)]), if res.is_ok() { "program/value" } else { "program/panic" }, nops >= 2 && nfit >= 1);
        let terms_e: Vec<Tm> = ops.iter().map(|(kind, a, b)| match kind { 0 => app("KFit", vec![fl(a), fl(b), Tm::Raw("NoCall".into())]), 1 => app("KPredict", vec![fl(a)]), _ => app("KSet", vec![fl(a)]) }).collect();
        cs.push(app("CSeqE", vec![Tm::Nat(deg as u64), Tm::L(terms_e), outcome_list(&res)]), if res.is_ok() { "e2e-program/value" } else { "e2e-program/panic" }, nops >= 2 && nfit >= 1);
    }
    // 6. coverage audit: the abscissa families and response scales the failure search was widened to (own generator: the cases above are unchanged)
    {
        let mut r = Rng::new(seed ^ 0xC14_A0D1);
        let mut turn = 0usize;
        for k in 1..=7usize { for fam in 5..NFAM { for dn in (if thorough { vec![0usize, 1, 4, 9, 30, 97] } else { vec![0usize, 6] }) {
            turn += 1;
            let (noise, e) = SCALES[turn % SCALES.len()];
            let (x, fname) = abscissae2(&mut r, fam, k + dn, k);
            let (y, _) = responses2(&mut r, &x, k, fam % NFAM == 9 && noise == 0.0 && e == 0, noise, e);
            push_fit(&mut cs, k, &x, &y, &format!("fit/{}", fname));
        }}}
        // every response scale once more on a mid-size problem of each of the original families
        for (i, &(noise, e)) in SCALES.iter().enumerate() {
            let k = 1 + (i * 3) % 7; let n = k + 10 + i;
            let (x, _) = abscissae(&mut r, i, n, k);
            let (y, _) = responses2(&mut r, &x, k, false, noise, e);
            push_fit(&mut cs, k, &x, &y, "fit/extreme-scale");
        }
    }
    cs.write(outdir, 60,
             "vandermonde over a box of (length, order) with special values and orders to 40; predict for every coefficient length 0..9 with special values; fit for degrees 0..6 x {uniform, clustered, Chebyshev, quarter-integer, integer} abscissae in [-2,2] x every n from degree+1 upward (all residues), random n to 120 (quick) / 300 (thorough), n to 2000, responses = polynomial + noise of scale 0..1e4 and exact-integer cases; degrees 0..6 x {equispaced with both end points, exactly degree+1 distinct values with repeats, sub-interval, near-duplicate abscissae (1-2 ulp apart), signed zeros} x n = degree+1 and larger with noise from 1e-15 to 1e280 and responses scaled by 2^900 / 2^-900 / 2^-1000; a degenerate/malformed stream (n < k, repeated abscissae, special values, k = 0, length mismatch, empty data); programs new(deg) + fits/predicts/coef assignments. Each fit case carries the recorded call of the crate's invert_matrix; every fit and every program is ALSO checked end to end (tags e2e-*: no record, the inner solve computed by C01's executable model of invert_matrix inside Coq). Non-trivial = fit with n >= 3 and non-constant x and y; predict with >= 2 coefficients; vandermonde of order >= 3; programs with >= 2 steps incl. a fit; distinct by hash of the case term");
}

// ---------------------------------------------------------------------------------------------
// failure-search oracle: the property's statement against the implementation only.  Reference arithmetic: double-double.
#[derive(Clone, Copy, Debug)]
struct DD(f64, f64);
fn two_sum(a: f64, b: f64) -> (f64, f64) { let s = a + b; let bb = s - a; (s, (a - (s - bb)) + (b - bb)) }
fn quick_two_sum(a: f64, b: f64) -> (f64, f64) { let s = a + b; (s, b - (s - a)) }
fn split(a: f64) -> (f64, f64) { let t = 134217729.0 * a; let hi = t - (t - a); (hi, a - hi) }
fn two_prod(a: f64, b: f64) -> (f64, f64) { let p = a * b; let (ah, al) = split(a); let (bh, bl) = split(b); (p, ((ah * bh - p) + ah * bl + al * bh) + al * bl) }
impl DD {
    fn of(x: f64) -> DD { DD(x, 0.0) }
    fn add(self, o: DD) -> DD { let (s, e) = two_sum(self.0, o.0); let (s, e) = quick_two_sum(s, e + self.1 + o.1); DD(s, e) }
    fn neg(self) -> DD { DD(-self.0, -self.1) }
    fn sub(self, o: DD) -> DD { self.add(o.neg()) }
    fn mul(self, o: DD) -> DD { let (p, e) = two_prod(self.0, o.0); let (s, e) = quick_two_sum(p, e + self.0 * o.1 + self.1 * o.0); DD(s, e) }
    fn div(self, o: DD) -> DD {
        let q1 = self.0 / o.0; let r = self.sub(o.mul(DD::of(q1)));
        let q2 = r.0 / o.0; let r = r.sub(o.mul(DD::of(q2)));
        let q3 = r.0 / o.0;
        DD::of(q1).add(DD::of(q2)).add(DD::of(q3))
    }
    fn abs(self) -> f64 { (self.0 + self.1).abs() }
    fn val(self) -> f64 { self.0 + self.1 }
}
fn dd_pow(x: f64, j: usize) -> DD { let mut p = DD::of(1.0); for _ in 0..j { p = p.mul(DD::of(x)); } p }
fn dd_poly(c: &[DD], x: f64) -> DD { let mut s = DD::of(0.0); for (j, cj) in c.iter().enumerate() { s = s.add(cj.mul(dd_pow(x, j))); } s }
/// Gauss-Jordan with partial pivoting in double-double: the inverse of the k x k matrix g, None when a pivot vanishes
fn dd_inverse(g: &[DD], k: usize) -> Option<Vec<DD>> {
    let mut a: Vec<DD> = g.to_vec();
    let mut b: Vec<DD> = (0..k * k).map(|i| if i / k == i % k { DD::of(1.0) } else { DD::of(0.0) }).collect();
    for c in 0..k {
        let mut p = c; for i in c + 1..k { if a[i * k + c].abs() > a[p * k + c].abs() { p = i; } }
        if a[p * k + c].abs() == 0.0 || !a[p * k + c].abs().is_finite() { return None; }
        if p != c { for j in 0..k { a.swap(p * k + j, c * k + j); b.swap(p * k + j, c * k + j); } }
        let d = a[c * k + c];
        for j in 0..k { a[c * k + j] = a[c * k + j].div(d); b[c * k + j] = b[c * k + j].div(d); }
        for i in 0..k { if i != c { let f = a[i * k + c]; if f.abs() != 0.0 { for j in 0..k { a[i * k + j] = a[i * k + j].sub(f.mul(a[c * k + j])); b[i * k + j] = b[i * k + j].sub(f.mul(b[c * k + j])); } } } }
    }
    Some(b)
}
fn inf_norm(m: &[DD], k: usize) -> f64 { (0..k).map(|i| (0..k).map(|j| m[i * k + j].abs()).sum::<f64>()).fold(0.0, f64::max) }
fn dd_rss(c: &[DD], x: &[f64], y: &[f64]) -> DD { let mut s = DD::of(0.0); for (xi, yi) in x.iter().zip(y) { let r = DD::of(*yi).sub(dd_poly(c, *xi)); s = s.add(r.mul(r)); } s }

struct Reference { cref: Vec<DD>, tol_c: f64, gnorm: f64, kappa: f64 }
/// the least-squares solution in double-double, and the coefficient tolerance the conditioning of V^T V grants:
/// (32 k^2 + 4 n) eps cond(G) ||G^-1|| ||V^T y||  (explicit inverse, then a product; G and V^T y are sums of n rounded terms),
/// with ||G|| and ||V^T y|| taken over the sums of absolute values of the terms.
/// None when the problem is too ill-conditioned for any claim (tolerance factor above 1e-3) or singular.
fn reference(k: usize, x: &[f64], y: &[f64]) -> Option<Reference> {
    let n = x.len();
    let mut g = vec![DD::of(0.0); k * k]; let mut b = vec![DD::of(0.0); k];
    // the same sums over absolute values: rounding errors of a sum are relative to the sum of magnitudes (cancellation)
    let mut gabs = vec![DD::of(0.0); k * k]; let mut babs = vec![0.0f64; k];
    for i in 0..n { let pw: Vec<DD> = (0..2 * k).map(|j| dd_pow(x[i], j)).collect();
        for j in 0..k { b[j] = b[j].add(pw[j].mul(DD::of(y[i]))); babs[j] += pw[j].abs() * y[i].abs();
            for l in 0..k { g[j * k + l] = g[j * k + l].add(pw[j + l]); gabs[j * k + l] = gabs[j * k + l].add(DD::of(pw[j + l].abs())); } } }
    let gi = dd_inverse(&g, k)?;
    let (gn, gin) = (inf_norm(&gabs, k).max(inf_norm(&g, k)), inf_norm(&gi, k));
    let kappa = gn * gin;
    let factor = (32.0 * (k * k) as f64 + 4.0 * n as f64) * f64::EPSILON * kappa;
    if !(factor < 1e-3) { return None; }
    let cref: Vec<DD> = (0..k).map(|j| { let mut s = DD::of(0.0); for l in 0..k { s = s.add(gi[j * k + l].mul(b[l])); } s }).collect();
    let bn = babs.iter().cloned().fold(0.0, f64::max);
    Some(Reference { cref, tol_c: factor * gin * bn + 1e-300, gnorm: gn, kappa })
}

fn desc(k: usize, x: &[f64], y: &[f64]) -> String { format!("degree={} x={} y={}", k as i64 - 1, json_floats(x), json_floats(y)) }

// ---------------------------------------------------------------------------------------------
// abscissa families added by the coverage audit (all inside [-2, 2], the property's range)
/// equally spaced grid with both end points -2 and 2 exactly (n = 1: one random point)
fn equispaced_x(r: &mut Rng, n: usize) -> Vec<f64> {
    if n == 1 { return vec![r.uniform(-2.0, 2.0)]; }
    (0..n).map(|i| if i + 1 == n { 2.0 } else { -2.0 + 4.0 * i as f64 / (n - 1) as f64 }).collect()
}
/// exactly k distinct values (the boundary of "at least degree+1 distinct abscissae"), every further point a repeat
fn repeated_x(r: &mut Rng, n: usize, k: usize) -> Vec<f64> {
    let mut vals: Vec<f64> = vec![];
    while vals.len() < k { let v = if r.coin(0.5) { r.range(-8, 8) as f64 / 4.0 } else { r.uniform(-2.0, 2.0) }; if !vals.iter().any(|u| *u == v) { vals.push(v); } }
    (0..n).map(|i| if i < k { vals[i] } else { *r.pick(&vals) }).collect()
}
/// uniform on a random sub-interval [a, b] of [-2, 2] of width >= 0.5 (one-sided and off-centre data)
fn subinterval_x(r: &mut Rng, n: usize) -> Vec<f64> {
    let a = r.uniform(-2.0, 1.5); let b = (a + r.uniform(0.5, 4.0)).min(2.0);
    (0..n).map(|_| r.uniform(a, b)).collect()
}
/// k+2 well separated base points; the other points are copies moved by 0, 1, 2 ulp or a relative 1e-13 / 1e-10
fn near_duplicate_x(r: &mut Rng, n: usize, k: usize) -> Vec<f64> {
    let m = k + 2;
    let base: Vec<f64> = (0..m).map(|i| -1.9 + 3.8 * (i as f64 + 0.8 * r.unit()) / m as f64).collect();
    (0..n).map(|i| { let b = base[i % m]; let d = *r.pick(&[0.0, 1.0, -1.0, 2.0, -2.0, 450.0, -450000.0]); (b * (1.0 + d * f64::EPSILON)).clamp(-2.0, 2.0) }).collect()
}
/// integers / quarter integers with every zero drawn as +0 or -0
fn signed_zero_x(r: &mut Rng, n: usize, k: usize) -> Vec<f64> {
    let v = if k <= 5 { integer_x(r, n) } else { quarter_x(r, n) };
    v.into_iter().enumerate().map(|(i, t)| if t == 0.0 && (i % 2 == 0 || r.coin(0.5)) { -0.0 } else { t }).collect()
}
const NFAM: usize = 11;
/// all abscissae within 2^-e (e = 6..20) of 0: an ordinary fit in t = x 2^e (seeded change C14-10 dropped terms below machine epsilon
/// from the products, which matters exactly here)
fn tiny_cluster_x(r: &mut Rng, n: usize) -> Vec<f64> {
    let w = pow2(-(6 + r.below(15) as i32));
    (0..n).map(|_| w * r.uniform(-1.0, 1.0)).collect()
}
fn abscissae2(r: &mut Rng, fam: usize, n: usize, k: usize) -> (Vec<f64>, &'static str) {
    match fam % NFAM {
        5 => (equispaced_x(r, n), "equispaced"),
        6 => (repeated_x(r, n, k), "exactly-k-distinct"),
        7 => (subinterval_x(r, n), "subinterval"),
        8 => (near_duplicate_x(r, n, k), "near-duplicates"),
        9 => (signed_zero_x(r, n, k), "signed-zero-integer"),
        10 => (tiny_cluster_x(r, n), "tiny-cluster-at-0"),
        f => abscissae(r, f, n, k),
    }
}
/// (noise scale, binary exponent e of the response scale): y = 2^e (polynomial + noise).  "Noise of any scale": from far below the
/// rounding of the polynomial part to far above it, and responses as a whole near both ends of the binary64 range (no intermediate of a
/// normal-equations solve with cond below the oracle's limit can overflow below 1e290).
const SCALES: [(f64, i32); 16] = [(0.0, 0), (1e-15, 0), (1e-12, 0), (1e-9, 0), (1e-3, 0), (0.1, 0), (1.0, 0), (10.0, 0), (1e4, 0), (1e8, 0), (1e100, 0), (1e280, 0),
                                  (1.0, 900), (1.0, -900), (1e-3, -1000), (0.0, -1000)];
fn pow2(e: i32) -> f64 { f64::from_bits(((e.clamp(-1022, 1023) + 1023) as u64) << 52) }
fn responses2(r: &mut Rng, x: &[f64], k: usize, integer: bool, noise: f64, e: i32) -> (Vec<f64>, Vec<f64>) {
    let c0: Vec<f64> = (0..k).map(|_| if integer { r.small_int(5) } else { r.uniform(-3.0, 3.0) }).collect();
    let s = pow2(e);
    let y = x.iter().map(|&v| s * (poly_at(&c0, v) + if noise == 0.0 { 0.0 } else { noise * r.normal() })).collect();
    (y, c0)
}

/// what the failure search reached, per (abscissa family, number of coefficients); printed when C14_COVERAGE is set
#[derive(Default)]
struct Cov { cells: std::collections::BTreeMap<(String, usize), [f64; 6]> }
impl Cov {
    fn cell(&mut self, f: &str, k: usize) -> &mut [f64; 6] { self.cells.entry((f.to_string(), k)).or_insert([0.0; 6]) }
    fn print(&self) {
        eprintln!("{:<22} {:>2} {:>7} {:>9} {:>9} {:>10} {:>6} {:>10}", "family", "k", "checked", "ill-cond", "<k dist.", "max cond", "max n", "max |y|");
        for ((f, k), c) in &self.cells { eprintln!("{:<22} {:>2} {:>7} {:>9} {:>9} {:>10.2e} {:>6} {:>10.1e}", f, k, c[0], c[1], c[2], c[3], c[4], c[5]); }
    }
}

struct Search { out: Vec<Finding>, tried: u64, cov: Cov }

/// The property's clauses on one data set inside the quantifier (skipped when there are fewer than k distinct abscissae or when the
/// double-double reference says the normal equations are too ill-conditioned for any claim).
/// `c0` = the generating coefficients when the data are noiseless; `exact` = they are small integers on a grid where every power is exact.
/// `refit` = family of a first, different data set after which the same regressor is fitted again.
#[allow(clippy::too_many_arguments)]
fn check_fit(s: &mut Search, r: &mut Rng, k: usize, x: &[f64], y: &[f64], fname: &str, c0: Option<&[f64]>, exact: bool, refit: Option<usize>) {
    let n = x.len();
    let input = desc(k, x, y);
    crumb(&input);
    let got = catch(|| { let mut p = PolynomialRegressor::new(k - 1); p.fit(x, y); let pred = p.predict(x); (p.coef.clone(), pred) });
    s.tried += 1;
    let mut distinct: Vec<u64> = x.iter().map(|v| (v + 0.0).to_bits()).collect(); distinct.sort(); distinct.dedup();
    if distinct.len() < k { s.cov.cell(fname, k)[2] += 1.0; return; }
    // the clauses are invariant under y -> y / 2^e: responses near the ends of the binary64 range are compared after an exact rescaling,
    // so that the double-double reference (whose splitting overflows above 1e300) and the absolute floors below stay meaningful
    let ymax = y.iter().fold(0.0f64, |m, v| m.max(v.abs()));
    let sc = if ymax.is_finite() && ymax > 0.0 && (ymax > pow2(200) || ymax < pow2(-200)) { pow2(ymax.log2().floor() as i32) } else { 1.0 };
    let z: Vec<f64> = y.iter().map(|v| v / sc).collect();
    // abscissae clustered around 0 (all within a width w < 1/16): the fit is an ordinary one in the variable t = x / w, w a power of two
    // (p(x) = sum_j (c_j w^j) t^j, an exact rescaling), so the clauses are evaluated in t, where the conditioning of V^T V is that of
    // the scaled problem (a least-squares polynomial does not depend on the unit of x)
    let xmax = x.iter().fold(0.0f64, |m, v| m.max(v.abs()));
    let w = if xmax > 0.0 && xmax < 1.0 / 32.0 { pow2(xmax.log2().ceil() as i32 - 1) } else { 1.0 };
    let x_orig: &[f64] = x;
    let xt: Vec<f64> = x.iter().map(|v| v / w).collect();
    let x: &[f64] = &xt;
    let rf = match reference(k, x, &z) { Some(rf) => rf, None => { s.cov.cell(fname, k)[1] += 1.0; return; } };
    { let c = s.cov.cell(fname, k); c[0] += 1.0; c[3] = c[3].max(rf.kappa); c[4] = c[4].max(n as f64); c[5] = c[5].max(ymax); }
    let out = &mut s.out;
    match &got {
        Err(e) => out.push(Finding { class: "fit:valid-input-panics".into(), what: format!("fit panicked on {} points with {} distinct abscissae ({} family, cond(V^T V) ~ {:e}): {}", n, distinct.len(), fname, rf.kappa, e), input: input.clone() }),
        Ok((c, _)) if c.len() != k => out.push(Finding { class: "fit:wrong-coefficient-count".into(), what: format!("fit returned {} coefficients for degree {}", c.len(), k - 1), input: input.clone() }),
        Ok((c, pred)) => {
            let cd: Vec<DD> = c.iter().enumerate().map(|(j, v)| DD::of(*v / sc * w.powi(j as i32))).collect();
            // (a) coefficients against the double-double least-squares solution
            let err = (0..k).map(|j| cd[j].sub(rf.cref[j]).abs()).fold(0.0, f64::max);
            if !(err <= rf.tol_c) {
                out.push(Finding { class: "fit:coefficients-not-least-squares".into(), what: format!("fit returned {:?}; the least-squares coefficients are {:?} x {:e} (max deviation {:e}, tolerance from cond(V^T V)={:e} is {:e}, both in units of {:e})", c, rf.cref.iter().map(|v| v.val()).collect::<Vec<_>>(), sc, err, rf.kappa, rf.tol_c, sc), input: input.clone() });
            }
            // (b) the residual is orthogonal to every power of x up to the degree
            let res: Vec<DD> = x.iter().zip(&z).map(|(xi, yi)| DD::of(*yi).sub(dd_poly(&cd, *xi))).collect();
            let tol_o = rf.gnorm * rf.tol_c * 1.0001 + 1e-300;
            for j in 0..k {
                let mut t = DD::of(0.0); for (xi, ri) in x.iter().zip(&res) { t = t.add(dd_pow(*xi, j).mul(*ri)); }
                if !(t.abs() <= tol_o) { out.push(Finding { class: "fit:residual-not-orthogonal".into(), what: format!("sum_i x_i^{} r_i = {:e} x {:e} for the fitted coefficients {:?} (tolerance {:e})", j, t.val(), sc, c, tol_o), input: input.clone() }); break; }
            }
            // (c) no perturbation of a coefficient lowers the residual sum of squares
            let rss0 = dd_rss(&cd, x, &z);
            'pert: for j in 0..k { for sgn in [-1.0, 1.0] {
                let h = sgn * 1e-3 * (1.0 + cd[j].abs());
                let mut c2 = cd.clone(); c2[j] = c2[j].add(DD::of(h));
                let d = dd_rss(&c2, x, &z).sub(rss0).val();
                if !(d >= -2.0 * h.abs() * tol_o - 1e-28 * rss0.abs()) { out.push(Finding { class: "fit:perturbation-lowers-rss".into(), what: format!("rss(c + {:e} e_{}) - rss(c) = {:e} < 0 for the fitted c = {:?} (responses in units of {:e})", h, j, d, c, sc), input: input.clone() }); break 'pert; }
            }}
            // (d) exact-integer data generated by a polynomial of that degree are reproduced
            if let (Some(c0), true, true) = (c0, exact, sc == 1.0 && w == 1.0) {
                let e0 = (0..k).map(|j| (c[j] - c0[j]).abs()).fold(0.0, f64::max);
                if !(e0 <= rf.tol_c) { out.push(Finding { class: "fit:polynomial-not-reproduced".into(), what: format!("data generated exactly by {:?} were fitted as {:?} (deviation {:e}, tolerance {:e})", c0, c, e0, rf.tol_c), input: input.clone() }); }
            }
            // (e) predict on the fitted regressor is the fitted polynomial at each abscissa, and noiseless data of that degree are
            //     reproduced BY THE PREDICTIONS: |pred_i - y_i| <= (deviation the conditioning grants) + (2-norm of the rounding of the data)
            if pred.len() != n { out.push(Finding { class: "predict:wrong-length".into(), what: format!("predict after fit returned {} values for {} points", pred.len(), n), input: input.clone() }); }
            else {
                let dmax = match c0 { Some(c0) if !exact => x.iter().map(|xi| (2 * k + 2) as f64 * f64::EPSILON * c0.iter().enumerate().map(|(j, cj)| cj.abs() * (xi * w).abs().powi(j as i32)).sum::<f64>()).fold(0.0, f64::max), _ => 0.0 };
                for i in 0..n {
                    let pw: f64 = (0..k).map(|j| x[i].abs().powi(j as i32)).sum();
                    let mag: f64 = (0..k).map(|j| cd[j].abs() * x[i].abs().powi(j as i32)).sum();
                    let horner = (2 * k + 2) as f64 * f64::EPSILON * mag + 1e-300;
                    let pz = pred[i] / sc;
                    if !(DD::of(pz).sub(dd_poly(&cd, x[i])).abs() <= horner) {
                        out.push(Finding { class: "predict:not-the-polynomial".into(), what: format!("after fit, predict gave {:e} at x={:e}; the fitted c0 + c1 x + ... = {:e}", pred[i], x[i], dd_poly(&cd, x[i]).val() * sc), input: input.clone() }); break;
                    }
                    if c0.is_some() && sc == 1.0 {
                        let tol = 2.0001 * rf.tol_c * pw + horner + (n as f64).sqrt() * dmax + 4.0 * f64::EPSILON * z[i].abs();
                        if !((pz - z[i]).abs() <= tol) {
                            out.push(Finding { class: "fit:data-not-reproduced".into(), what: format!("noiseless data of degree {}: the fitted polynomial predicts {:e} at x={:e}, the datum is {:e} (tolerance {:e}, cond(V^T V)={:e})", k - 1, pred[i], x[i], y[i], tol, rf.kappa), input: input.clone() }); break;
                        }
                    }
                }
            }
            // (g) a refit on the same regressor equals a fit on a fresh one (no dependence on history); also through `fit`'s returned
            //     reference, and with the number of coefficients set through the public field instead of `new`
            if let Some(fam2) = refit {
                let (x2, _) = abscissae2(r, fam2, n, k); let (y2, _, _) = responses(r, &x2, k, false);
                crumb(&format!("fit({}) then refit {}", desc(k, &x2, &y2), input));
                let again = catch(|| { let mut p = PolynomialRegressor::new(k - 1); p.fit(&x2, &y2); p.fit(x_orig, y); p.coef.clone() });
                s.tried += 1;
                let same = |a: &Result<Vec<f64>, String>| match a { Ok(a) => a.len() == c.len() && a.iter().zip(c).all(|(u, v)| u.to_bits() == v.to_bits()), Err(_) => false };
                if !same(&again) { out.push(Finding { class: "fit:history-dependent".into(), what: format!("refitting after an earlier fit gave {:?}, a fresh regressor gives {:?}", again, c), input: input.clone() }); }
                let d0 = (k + 2) % 7;
                crumb(&format!("new({}), coef = [7; {}], then {}", d0, k, input));
                let field = catch(|| { let mut p = PolynomialRegressor::new(d0); p.coef = vec![7.0; k]; let q = p.fit(x_orig, y).predict(x_orig); (p.coef.clone(), q) });
                s.tried += 1;
                let same2 = match &field { Ok((a, q)) => same(&Ok(a.clone())) && q.len() == pred.len() && q.iter().zip(pred).all(|(u, v)| u.to_bits() == v.to_bits()), Err(_) => false };
                if !same2 { out.push(Finding { class: "fit:history-dependent".into(), what: format!("a regressor whose {} coefficients were set through the public field gave {:?}, a fresh one {:?}", k, field.map(|f| f.0), c), input: input.clone() }); }
            }
        }
    }
}

fn check_predict(s: &mut Search, coef: &[f64], pts: &[f64]) {
    let (kk, m) = (coef.len(), pts.len());
    let inp = format!("coef={} predict at {}", json_floats(coef), json_floats(pts)); crumb(&inp);
    let g = catch(|| { let mut p = PolynomialRegressor::new(0); p.coef = coef.to_vec(); p.predict(pts) });
    s.tried += 1;
    match g {
        Err(e) => s.out.push(Finding { class: "predict:panics".into(), what: format!("predict panicked: {}", e), input: inp }),
        Ok(v) if v.len() != m => s.out.push(Finding { class: "predict:wrong-length".into(), what: format!("predict returned {} values for {} points", v.len(), m), input: inp }),
        Ok(v) => { let cd: Vec<DD> = coef.iter().map(|c| DD::of(*c)).collect();
            for (i, p) in pts.iter().enumerate() {
                let want = dd_poly(&cd, *p);
                let mag: f64 = coef.iter().enumerate().map(|(j, c)| c.abs() * p.abs().powi(j as i32)).sum();
                if !((DD::of(v[i]).sub(want)).abs() <= (2 * kk + 2) as f64 * f64::EPSILON * mag) {
                    s.out.push(Finding { class: "predict:not-the-polynomial".into(), what: format!("predict gave {:e} at x={:e}; c0 + c1 x + ... = {:e}", v[i], p, want.val()), input: inp.clone() }); break;
                }
            } }
    }
}

pub fn oracle(tier: &str, seed: u64) -> (u64, Vec<Finding>) {
    let mut r = Rng::new(seed ^ 0xC14);
    let mut s = Search { out: vec![], tried: 0, cov: Cov::default() };
    let thorough = tier == "thorough";
    let iters = if thorough { 60000 } else { 4000 };
    for it in 0..iters {
        if s.out.len() > 40 { break; }
        // ---- fit on data inside the property's quantifier
        let k = 1 + (it % 7) as usize;
        let big = it % 97 == 0;
        let n = if it % 5 == 0 { k + r.below(3) as usize } else if big { 200 + r.below(1801) as usize } else { k + r.below(60) as usize };
        let fam = r.below(5) as usize;
        let (x, fname) = abscissae(&mut r, fam, n, k);
        let integer = fam >= 3 && r.coin(0.5);
        let (y, c0, scale) = responses(&mut r, &x, k, integer);
        check_fit(&mut s, &mut r, k, &x, &y, fname, if scale == 0.0 { Some(&c0) } else { None }, integer, if it % 4 == 0 { Some(fam + 1) } else { None });
        // ---- malformed: different lengths must panic
        if it % 6 == 0 {
            let m = if r.coin(0.5) { n + 1 + r.below(3) as usize } else { n.saturating_sub(1 + r.below(2) as usize) };
            if m != n {
                let y2: Vec<f64> = (0..m).map(|_| r.uniform(-1.0, 1.0)).collect();
                let inp = desc(k, &x, &y2); crumb(&inp);
                let g = catch(|| { let mut p = PolynomialRegressor::new(k - 1); p.fit(&x, &y2); p.coef.clone() });
                s.tried += 1;
                if let Ok(c) = g { s.out.push(Finding { class: "fit:length-mismatch-accepted".into(), what: format!("fit accepted {} abscissae with {} responses and returned {:?}", n, m, c), input: inp }); }
            }
        }
        // ---- predict evaluates c0 + c1 x + ... + cd x^d at each point
        {
            let kk = r.below(9) as usize; let m = r.below(6) as usize;
            let coef: Vec<f64> = (0..kk).map(|_| if r.coin(0.4) { r.small_int(6) } else { r.uniform(-3.0, 3.0) }).collect();
            let pts: Vec<f64> = (0..m).map(|_| if r.coin(0.3) { r.range(-8, 8) as f64 / 4.0 } else { r.uniform(-2.0, 2.0) }).collect();
            check_predict(&mut s, &coef, &pts);
        }
        // ---- a new regressor predicts zero everywhere (all coefficients zero) and has degree+1 coefficients
        if it % 50 == 0 {
            let deg = r.below(7) as usize; let pts = uniform_x(&mut r, 4);
            crumb(&format!("new({}).predict({})", deg, json_floats(&pts)));
            let g = catch(|| { let p = PolynomialRegressor::new(deg); (p.coef.len(), p.predict(&pts)) });
            s.tried += 1;
            match g { Ok((l, v)) if l == deg + 1 && v.iter().all(|z| *z == 0.0) && v.len() == 4 => {}
                      other => s.out.push(Finding { class: "new:not-the-zero-polynomial".into(), what: format!("new({}) gave {:?}", deg, other), input: format!("deg={}", deg) }) }
        }
    }
    // ---- coverage audit: the quantifier's grid, deterministically.  Every degree 0..6 x every abscissa family (the five above and
    //      equispaced with both end points, exactly degree+1 distinct values with repeats, a sub-interval, near-duplicate abscissae,
    //      signed zeros) x sizes from n = degree+1 (interpolation) through the band 60..200 the random stream never drew to the stated
    //      maximum 2000 (and 1999) x every noise / response scale of SCALES.
    let mut r = Rng::new(seed ^ 0xC14_A0D1);
    let sizes: Vec<usize> = if thorough { vec![0, 1, 2, 3, 5, 8, 13, 21, 34, 59, 64, 80, 97, 128, 150, 199, 200, 500, 777, 1000, 1500, 1999, 2000] } else { vec![0, 1, 2, 3, 7, 20, 64, 97, 128, 150, 199, 500, 1000, 1999, 2000] };
    let mut turn = 0usize;
    for k in 1..=7usize { for fam in 0..NFAM { for &dn in &sizes {
        if s.out.len() > 40 { break; }
        let n = if dn >= 1999 { dn } else { k + dn };
        // small problems: every scale; large ones: the scales in turn (thorough: three each)
        let nsc = if n <= 20 { SCALES.len() } else if n < 500 { if thorough { 6 } else { 2 } } else if thorough { 3 } else { 1 };
        for _ in 0..nsc {
            turn += 1;
            // (the tiny cluster at 0 with moderate responses only: its coefficients are c_j / w^j, up to 2^120 times the responses)
            let (noise, e) = if fam % NFAM == 10 { SCALES[turn % 9] } else { SCALES[turn % SCALES.len()] };
            let (x, fname) = abscissae2(&mut r, fam, n, k);
            let grid = matches!(fam % NFAM, 3 | 4 | 9);
            let integer = grid && noise == 0.0 && e == 0 && turn % 2 == 0;
            let (y, c0) = responses2(&mut r, &x, k, integer, noise, e);
            check_fit(&mut s, &mut r, k, &x, &y, fname, if noise == 0.0 { Some(&c0) } else { None }, integer, if turn % 5 == 0 { Some(fam + 1 + turn % 3) } else { None });
        }
    }}}
    // ---- predict away from the fitting range and at its marked points: +-0, +-2, tiny, large (extrapolation), many points at once,
    //      coefficients of every magnitude (the Horner bound (2k+2) eps sum |c_j| |x|^j holds wherever nothing overflows)
    let marks = [0.0, -0.0, 2.0, -2.0, 1.0, -1.0, 1e-8, -1e-8, 1e-150, 10.0, -10.0, 1e3, -1e3, 1e6, 5e-324];
    for it in 0..(if thorough { 4000 } else { 400 }) {
        if s.out.len() > 40 { break; }
        let kk = it % 10; let m = if it % 40 == 0 { 2000 } else { r.below(9) as usize };
        let mag = *r.pick(&[1.0, 1.0, 1e-6, 1e6, 1e-100, 1e100]);
        let coef: Vec<f64> = (0..kk).map(|_| if r.coin(0.2) { 0.0 } else { mag * r.uniform(-3.0, 3.0) }).collect();
        let pts: Vec<f64> = (0..m).map(|_| if r.coin(0.5) { *r.pick(&marks) } else { r.uniform(-2.0, 2.0) }).collect();
        check_predict(&mut s, &coef, &pts);
    }
    if std::env::var("C14_COVERAGE").is_ok() { s.cov.print(); }
    (s.tried, s.out)
}
