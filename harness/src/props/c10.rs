//! C10 — optimisers (Adam, SGD, Levenberg-Marquardt): objective programs as ASTs interpreted over
//! `reverse::Var`, case generation for the Coq correspondence, and the failure-search oracle.
#![allow(clippy::needless_range_loop)]
use crate::util::*;
use compute::linalg::{Dot, Matrix, Solve, Vector};
use compute::optimize::{Adam, Gradient, Optimizer, Tape, Var, LM, SGD};

// ---------------------------------------------------------------------------------------------
// objective programs
#[derive(Clone, Debug)]
pub enum C { Lit(f64), Dat(usize, usize) }
#[derive(Clone, Copy, Debug, PartialEq)]
pub enum U { Exp, Sin, Cos, Ln, Sqrt, Recip, Tanh }
#[derive(Clone, Debug)]
pub enum E {
    Par(usize), Var(usize), Let(Box<E>, Box<E>),
    Add(Box<E>, Box<E>), AddC(Box<E>, C), Sub(Box<E>, Box<E>), SubC(Box<E>, C), CSub(C, Box<E>),
    Mul(Box<E>, Box<E>), MulC(Box<E>, C), Div(Box<E>, Box<E>), DivC(Box<E>, C), CDiv(C, Box<E>),
    Neg(Box<E>), Powi(Box<E>, i32), Fn(U, Box<E>),
}
fn b(e: E) -> Box<E> { Box::new(e) }

fn cv(c: &C, d: &[&[f64]]) -> f64 { match c { C::Lit(x) => *x, C::Dat(i, j) => d[*i][*j] } }

/// the program over `reverse::Var` (operands left to right, then the operator)
fn ev<'a>(e: &E, p: &[Var<'a>], env: &mut Vec<Var<'a>>, d: &[&[f64]]) -> Var<'a> {
    match e {
        E::Par(i) => p[*i],
        E::Var(k) => { let n = env.len(); if *k >= n { panic!("unbound") } env[n - 1 - *k] }
        E::Let(a, bb) => { let va = ev(a, p, env, d); env.push(va); let r = ev(bb, p, env, d); env.pop(); r }
        E::Add(x, y) => { let a = ev(x, p, env, d); let c = ev(y, p, env, d); a + c }
        E::AddC(x, c) => { let a = ev(x, p, env, d); a + cv(c, d) }
        E::Sub(x, y) => { let a = ev(x, p, env, d); let c = ev(y, p, env, d); a - c }
        E::SubC(x, c) => { let a = ev(x, p, env, d); a - cv(c, d) }
        E::CSub(c, x) => { let k = cv(c, d); let a = ev(x, p, env, d); k - a }
        E::Mul(x, y) => { let a = ev(x, p, env, d); let c = ev(y, p, env, d); a * c }
        E::MulC(x, c) => { let a = ev(x, p, env, d); a * cv(c, d) }
        E::Div(x, y) => { let a = ev(x, p, env, d); let c = ev(y, p, env, d); a / c }
        E::DivC(x, c) => { let a = ev(x, p, env, d); a / cv(c, d) }
        E::CDiv(c, x) => { let k = cv(c, d); let a = ev(x, p, env, d); k / a }
        E::Neg(x) => -ev(x, p, env, d),
        E::Powi(x, n) => ev(x, p, env, d).powi(*n),
        E::Fn(u, x) => { let a = ev(x, p, env, d); match u { U::Exp => a.exp(), U::Sin => a.sin(), U::Cos => a.cos(), U::Ln => a.ln(), U::Sqrt => a.sqrt(), U::Recip => a.recip(), U::Tanh => a.tanh() } }
    }
}
fn objective<'a>(e: &E, p: &[Var<'a>], d: &[&[f64]]) -> Var<'a> { let mut env = Vec::new(); ev(e, p, &mut env, d) }

/// forward-mode (dual numbers) evaluation: value and gradient, independent of `reverse`
#[derive(Clone)]
struct D { v: f64, g: Vec<f64> }
fn dun(a: &D, v: f64, w: f64) -> D { D { v, g: a.g.iter().map(|x| w * x).collect() } }
fn dbin(a: &D, c: &D, v: f64, wa: f64, wc: f64) -> D { D { v, g: a.g.iter().zip(&c.g).map(|(x, y)| wa * x + wc * y).collect() } }
fn evd(e: &E, p: &[D], env: &mut Vec<D>, d: &[&[f64]]) -> D {
    match e {
        E::Par(i) => p[*i].clone(),
        E::Var(k) => env[env.len() - 1 - *k].clone(),
        E::Let(a, bb) => { let va = evd(a, p, env, d); env.push(va); let r = evd(bb, p, env, d); env.pop(); r }
        E::Add(x, y) => { let a = evd(x, p, env, d); let c = evd(y, p, env, d); dbin(&a, &c, a.v + c.v, 1., 1.) }
        E::AddC(x, c) => { let a = evd(x, p, env, d); dun(&a, a.v + cv(c, d), 1.) }
        E::Sub(x, y) => { let a = evd(x, p, env, d); let c = evd(y, p, env, d); dbin(&a, &c, a.v - c.v, 1., -1.) }
        E::SubC(x, c) => { let a = evd(x, p, env, d); dun(&a, a.v - cv(c, d), 1.) }
        E::CSub(c, x) => { let a = evd(x, p, env, d); dun(&a, cv(c, d) - a.v, -1.) }
        E::Mul(x, y) => { let a = evd(x, p, env, d); let c = evd(y, p, env, d); dbin(&a, &c, a.v * c.v, c.v, a.v) }
        E::MulC(x, c) => { let a = evd(x, p, env, d); let k = cv(c, d); dun(&a, a.v * k, k) }
        E::Div(x, y) => { let a = evd(x, p, env, d); let c = evd(y, p, env, d); dbin(&a, &c, a.v / c.v, 1. / c.v, -a.v / (c.v * c.v)) }
        E::DivC(x, c) => { let a = evd(x, p, env, d); let k = cv(c, d); dun(&a, a.v / k, 1. / k) }
        E::CDiv(c, x) => { let a = evd(x, p, env, d); let k = cv(c, d); dun(&a, k / a.v, -k / (a.v * a.v)) }
        E::Neg(x) => { let a = evd(x, p, env, d); dun(&a, -a.v, -1.) }
        E::Powi(x, n) => { let a = evd(x, p, env, d); dun(&a, a.v.powi(*n), *n as f64 * a.v.powi(*n - 1)) }
        E::Fn(u, x) => { let a = evd(x, p, env, d); match u {
            U::Exp => dun(&a, a.v.exp(), a.v.exp()), U::Sin => dun(&a, a.v.sin(), a.v.cos()), U::Cos => dun(&a, a.v.cos(), -a.v.sin()),
            U::Ln => dun(&a, a.v.ln(), 1. / a.v), U::Sqrt => dun(&a, a.v.sqrt(), 0.5 / a.v.sqrt()), U::Recip => dun(&a, 1. / a.v, -1. / (a.v * a.v)),
            U::Tanh => dun(&a, a.v.tanh(), 1. - a.v.tanh() * a.v.tanh()) } }
    }
}
fn dual(e: &E, x: &[f64], d: &[&[f64]]) -> (f64, Vec<f64>) {
    let n = x.len();
    let p: Vec<D> = (0..n).map(|i| D { v: x[i], g: (0..n).map(|j| if i == j { 1. } else { 0. }).collect() }).collect();
    let r = evd(e, &p, &mut vec![], d); (r.v, r.g)
}
fn has_cdiv(e: &E) -> bool {
    match e {
        E::Par(_) | E::Var(_) => false, E::CDiv(..) => true,
        E::Let(a, c) | E::Add(a, c) | E::Sub(a, c) | E::Mul(a, c) | E::Div(a, c) => has_cdiv(a) || has_cdiv(c),
        E::AddC(a, _) | E::SubC(a, _) | E::CSub(_, a) | E::MulC(a, _) | E::DivC(a, _) | E::Neg(a) | E::Powi(a, _) | E::Fn(_, a) => has_cdiv(a),
    }
}
fn uses_libm(e: &E) -> bool {
    match e {
        E::Par(_) | E::Var(_) => false,
        E::Fn(u, a) => !matches!(u, U::Sqrt | U::Recip) || uses_libm(a),
        E::Let(a, c) | E::Add(a, c) | E::Sub(a, c) | E::Mul(a, c) | E::Div(a, c) => uses_libm(a) || uses_libm(c),
        E::AddC(a, _) | E::SubC(a, _) | E::CSub(_, a) | E::MulC(a, _) | E::DivC(a, _) | E::CDiv(_, a) | E::Neg(a) | E::Powi(a, _) => uses_libm(a),
    }
}

// ---- Coq terms
fn ctm(c: &C) -> Tm { match c { C::Lit(x) => app("CLit", vec![Tm::F(*x)]), C::Dat(i, j) => app("CDat", vec![Tm::Nat(*i as u64), Tm::Nat(*j as u64)]) } }
fn etm(e: &E) -> Tm {
    match e {
        E::Par(i) => app("EPar", vec![Tm::Nat(*i as u64)]), E::Var(k) => app("EVar", vec![Tm::Nat(*k as u64)]),
        E::Let(a, c) => app("ELet", vec![etm(a), etm(c)]), E::Add(a, c) => app("EAdd", vec![etm(a), etm(c)]),
        E::AddC(a, c) => app("EAddC", vec![etm(a), ctm(c)]), E::Sub(a, c) => app("ESub", vec![etm(a), etm(c)]),
        E::SubC(a, c) => app("ESubC", vec![etm(a), ctm(c)]), E::CSub(c, a) => app("ECSub", vec![ctm(c), etm(a)]),
        E::Mul(a, c) => app("EMul", vec![etm(a), etm(c)]), E::MulC(a, c) => app("EMulC", vec![etm(a), ctm(c)]),
        E::Div(a, c) => app("EDiv", vec![etm(a), etm(c)]), E::DivC(a, c) => app("EDivC", vec![etm(a), ctm(c)]),
        E::CDiv(c, a) => app("ECDiv", vec![ctm(c), etm(a)]), E::Neg(a) => app("ENeg", vec![etm(a)]),
        E::Powi(a, n) => app("EPowi", vec![etm(a), Tm::Z(*n as i64)]),
        E::Fn(u, a) => app("EFn", vec![Tm::Raw(match u { U::Exp => "UExp", U::Sin => "USin", U::Cos => "UCos", U::Ln => "ULn", U::Sqrt => "USqrt", U::Recip => "URecip", U::Tanh => "UTanh" }.into()), etm(a)]),
    }
}
fn data_tm(d: &[Vec<f64>]) -> Tm { Tm::L(d.iter().map(|r| fl(r)).collect()) }
fn runs_tm(rs: &[(usize, Result<Vec<f64>, String>)]) -> Tm { Tm::L(rs.iter().map(|(k, r)| Tm::Tup(vec![Tm::Nat(*k as u64), outcome_list(r)])).collect()) }
fn refs(d: &[Vec<f64>]) -> Vec<&[f64]> { d.iter().map(|r| r.as_slice()).collect() }

// ---- silence the eprintln! of Adam/SGD while the implementation runs
extern "C" { fn dup(fd: i32) -> i32; fn dup2(a: i32, b: i32) -> i32; fn open(path: *const u8, flags: i32, ...) -> i32; fn close(fd: i32) -> i32; }
struct Quiet(i32);
impl Quiet {
    fn new() -> Self { unsafe { let saved = dup(2); let n = open(b"/dev/null\0".as_ptr(), 1); if n >= 0 { dup2(n, 2); close(n); } Quiet(saved) } }
}
impl Drop for Quiet { fn drop(&mut self) { unsafe { if self.0 >= 0 { dup2(self.0, 2); close(self.0); } } } }

// ---------------------------------------------------------------------------------------------
// program families
fn lit(r: &mut Rng) -> f64 {
    match r.below(8) { 0 => r.small_int(4), 1 => 0.5, 2 => 2.0, 3 => -1.5, _ => (r.uniform(-3.0, 3.0) * 64.0).round() / 64.0 + if r.coin(0.5) { r.uniform(-1e-3, 1e-3) } else { 0.0 } }
}
fn sum_chain(mut ts: Vec<E>) -> E { let mut acc = ts.remove(0); for t in ts { acc = E::Add(b(acc), b(t)); } acc }

/// sum_i a_i (x_i - c_i)^2 + sum_{i<j} b_ij x_i x_j ; convex when the cross terms are small
fn quadratic(r: &mut Rng, n: usize, convex: bool) -> E {
    let mut ts = vec![];
    for i in 0..n {
        let a = if convex { r.uniform(0.2, 3.0) } else { r.uniform(-1.0, 3.0) };
        let c = r.uniform(-2.0, 2.0);
        let sq = E::Powi(b(E::SubC(b(E::Par(i)), C::Lit(c))), 2);
        ts.push(if r.coin(0.5) { E::MulC(b(sq), C::Lit(a)) } else { E::Mul(b(E::MulC(b(E::SubC(b(E::Par(i)), C::Lit(c))), C::Lit(a))), b(E::SubC(b(E::Par(i)), C::Lit(c)))) });
    }
    for i in 0..n { for j in (i + 1)..n { if r.coin(0.4) {
        let bb = if convex { r.uniform(-0.15, 0.15) } else { r.uniform(-1.5, 1.5) };
        ts.push(E::MulC(b(E::Mul(b(E::Par(i)), b(E::Par(j)))), C::Lit(bb)));
    } } }
    sum_chain(ts)
}
/// (a - x)^2 + b (y - x^2)^2 with a = data[0][0], b = data[0][1]
fn rosenbrock() -> E {
    E::Add(b(E::Powi(b(E::CSub(C::Dat(0, 0), b(E::Par(0)))), 2)),
           b(E::MulC(b(E::Powi(b(E::Sub(b(E::Par(1)), b(E::Powi(b(E::Par(0)), 2)))), 2)), C::Dat(0, 1))))
}
/// curve models m(p; x) with x given by the constant `x`
fn curve(kind: usize, x: C) -> (E, usize) {
    match kind {
        0 => (E::Add(b(E::Par(0)), b(E::MulC(b(E::Par(1)), x))), 2),                                       // p0 + p1 x
        1 => (E::Mul(b(E::Par(0)), b(E::Fn(U::Exp, b(E::MulC(b(E::Par(1)), x))))), 2),                      // p0 exp(p1 x)
        2 => (logistic(x), 3),
        3 => (E::Add(b(E::MulC(b(E::Fn(U::Sin, b(E::MulC(b(E::Par(0)), x.clone())))), C::Lit(1.0))), b(E::Powi(b(E::Par(1)), 3))), 2),   // sin(p0 x) + p1^3
        4 => (E::Add(b(E::Add(b(E::Par(0)), b(E::MulC(b(E::Par(1)), x.clone())))), b(E::Mul(b(E::Par(2)), b(E::Powi(b(E::AddC(b(E::MulC(b(E::Par(0)), C::Lit(0.0))), x)), 2))))), 3), // p0 + p1 x + p2 x^2
        5 => (E::DivC(b(E::Par(0)), C::Lit(1.0)), 1),                                                     // p0
        _ => (E::Div(b(E::MulC(b(E::Par(0)), x.clone())), b(E::AddC(b(E::Powi(b(E::Par(1)), 2)), C::Lit(1.0)))), 2), // p0 x / (1 + p1^2)
    }
}
/// logistic curve with all parameters identifiable: p0 / (1 + exp(-p1 (x - p2)))
fn logistic(x: C) -> E {
    E::Div(b(E::Par(0)), b(E::AddC(b(E::Fn(U::Exp, b(E::Neg(b(E::Mul(b(E::Par(1)), b(E::CSub(x, b(E::Neg(b(E::Neg(b(E::Par(2)))))))))))))), C::Lit(1.0))))
}
/// least-squares loss sum_i (m(p; x_i) - y_i)^2 over data[0] = xs, data[1] = ys
fn ls_loss(kind: usize, n: usize) -> (E, usize) {
    let mut ts = vec![]; let mut np = 0;
    for i in 0..n { let (m, k) = if kind == 7 { (logistic(C::Dat(0, i)), 3) } else { curve(kind, C::Dat(0, i)) }; np = k; ts.push(E::Powi(b(E::SubC(b(m), C::Dat(1, i))), 2)); }
    (sum_chain(ts), np)
}
/// arbitrary program: every node kind, sharing through let
fn random_expr(r: &mut Rng, depth: u32, np: usize, nlet: usize, drows: &[usize], libm: bool) -> E {
    if depth == 0 || r.coin(0.15) {
        return if nlet > 0 && r.coin(0.3) { E::Var(r.below(nlet as u64) as usize) } else { E::Par(r.below(np as u64) as usize) };
    }
    let c = |r: &mut Rng| -> C { if !drows.is_empty() && r.coin(0.25) { let i = r.below(drows.len() as u64) as usize; C::Dat(i, r.below(drows[i] as u64) as usize) } else { C::Lit(lit(r)) } };
    let d = depth - 1;
    match r.below(if libm { 20 } else { 17 }) {
        0 => E::Add(b(random_expr(r, d, np, nlet, drows, libm)), b(random_expr(r, d, np, nlet, drows, libm))),
        1 => { let k = c(r); E::AddC(b(random_expr(r, d, np, nlet, drows, libm)), k) }
        2 => E::Sub(b(random_expr(r, d, np, nlet, drows, libm)), b(random_expr(r, d, np, nlet, drows, libm))),
        3 => { let k = c(r); E::SubC(b(random_expr(r, d, np, nlet, drows, libm)), k) }
        4 => { let k = c(r); E::CSub(k, b(random_expr(r, d, np, nlet, drows, libm))) }
        5 | 6 => E::Mul(b(random_expr(r, d, np, nlet, drows, libm)), b(random_expr(r, d, np, nlet, drows, libm))),
        7 => { let k = c(r); E::MulC(b(random_expr(r, d, np, nlet, drows, libm)), k) }
        8 => E::Div(b(random_expr(r, d, np, nlet, drows, libm)), b(random_expr(r, d, np, nlet, drows, libm))),
        9 => { let k = c(r); E::DivC(b(random_expr(r, d, np, nlet, drows, libm)), k) }
        10 => { let k = c(r); E::CDiv(k, b(random_expr(r, d, np, nlet, drows, libm))) }
        11 => E::Neg(b(random_expr(r, d, np, nlet, drows, libm))),
        12 | 13 => E::Powi(b(random_expr(r, d, np, nlet, drows, libm)), *r.pick(&[2, 2, 3, 4, 1, 0, -1, -2, 5, 7])),
        14 => E::Let(b(random_expr(r, d, np, nlet, drows, libm)), b(random_expr(r, d, np, nlet + 1, drows, libm))),
        15 => E::Fn(U::Sqrt, b(random_expr(r, d, np, nlet, drows, libm))),
        16 => E::Fn(U::Recip, b(random_expr(r, d, np, nlet, drows, libm))),
        17 => E::Fn(*r.pick(&[U::Exp, U::Tanh]), b(random_expr(r, d, np, nlet, drows, libm))),
        18 => E::Fn(*r.pick(&[U::Sin, U::Cos]), b(random_expr(r, d, np, nlet, drows, libm))),
        _ => E::Fn(U::Ln, b(random_expr(r, d, np, nlet, drows, libm))),
    }
}

fn special(r: &mut Rng) -> f64 {
    *r.pick(&[0.0, -0.0, 1.0, -1.0, f64::INFINITY, f64::NEG_INFINITY, f64::NAN, 5e-324, -5e-324, 2.2250738585072014e-308, 1e308, -1e308, 1e-200, 0.5])
}

// ---------------------------------------------------------------------------------------------
// running the implementation
fn grad_impl(e: &E, d: &[Vec<f64>], x: &[f64], la: bool) -> Result<Vec<f64>, String> {
    let dr = refs(d);
    catch(|| {
        let tape = Tape::new();
        let ps = tape.add_vars(x);
        if la {
            // Nesterov's look-ahead nodes `*p - momentum * u` with momentum * u = 0: value p + (-0.) = p
            let fs = ps.iter().map(|p| *p - 0.0).collect::<Vec<_>>();
            let res = objective(e, &fs, &dr);
            let mut out = vec![res.val()]; out.extend(res.grad().wrt(&fs)); out
        } else {
            let res = objective(e, &ps, &dr);
            let mut out = vec![res.val()]; out.extend(res.grad().wrt(&ps)); out
        }
    })
}
fn adam_impl(e: &E, d: &[Vec<f64>], hp: (f64, f64, f64, f64), x: &[f64], k: usize) -> Result<Vec<f64>, String> {
    let dr = refs(d);
    catch(|| { let o = Adam::new(hp.0, hp.1, hp.2, hp.3); o.optimize(|p, dd| objective(e, p, dd), x, &dr, k).v })
}
fn sgd_impl(e: &E, d: &[Vec<f64>], hp: (f64, f64, bool), x: &[f64], k: usize) -> Result<Vec<f64>, String> {
    let dr = refs(d);
    catch(|| { let o = SGD::new(hp.0, hp.1, hp.2); o.optimize(|p, dd| objective(e, p, dd), x, &dr, k).v })
}
fn lm_impl(e: &E, d: &[Vec<f64>], hp: (f64, f64, f64), x: &[f64], k: usize) -> Result<Vec<f64>, String> {
    let dr = refs(d);
    catch(|| { let o = LM::new(hp.0, hp.1, hp.2); let (p, c) = o.optimize(|p, dd| objective(e, p, dd), x, &dr, k); let mut v = p.v; v.extend_from_slice(&c.data); v })
}

fn lm_impl_default(e: &E, d: &[Vec<f64>], x: &[f64], k: usize) -> Result<Vec<f64>, String> {
    let dr = refs(d);
    catch(|| { let o = LM::default(); let (p, c) = o.optimize(|p, dd| objective(e, p, dd), x, &dr, k); let mut v = p.v; v.extend_from_slice(&c.data); v })
}

type Solves = Vec<(Vec<f64>, Vec<f64>, Vec<f64>)>;
type Invs = Vec<(Vec<f64>, Vec<f64>)>;
fn same_bits(a: &[f64], c: &[f64]) -> bool { a.len() == c.len() && a.iter().zip(c).all(|(x, y)| x.to_bits() == y.to_bits() || (x.is_nan() && y.is_nan())) }
/// The dataflow of `LM::optimize` replayed through the crate's own `Matrix`/`Vector`/`Solve` API on a
/// private tape, only to record the inputs and outputs of the inner calls `damped.solve(jtr)` and
/// `jtj.inv()` (the Coq model answers them from these tables, keyed bitwise by the inputs it computed
/// itself; a replay that strays from the real run yields table misses, i.e. a disagreement).
fn lm_record(e: &E, d: &[Vec<f64>], hp: (f64, f64, f64), x0: &[f64], maxsteps: usize, solves: &mut Solves, invs: &mut Invs) {
    let _ = catch(|| {
        if d.len() != 2 || d[0].len() != d[1].len() { return; }
        let (eps1, eps2, tau) = hp;
        let tape = Tape::new();
        let (xs, ys) = (&d[0], &d[1]);
        let n = xs.len(); let p = x0.len();
        let mut params = tape.add_vars(x0);
        let mut res = Vector::zeros(0); let mut grad: Vec<f64> = vec![];
        for (&x, &y) in xs.iter().zip(ys) {
            let val = objective(e, &params, &[&[x]]);
            res.push((y - val).val()); grad.extend(val.grad().wrt(&params));
        }
        let mut jac = Matrix::new(grad, n as i32, p as i32);
        let mut jtj = jac.t_dot(&jac);
        let mut jtr = jac.t_dot(&res).to_matrix();
        let mut mu = tau; let mut nu = 2.;
        let mut stop = jtr.inf_norm() <= eps1;
        let mut step = 0;
        loop {
            step += 1;
            if step > maxsteps || stop { break; }
            let mut damped = jtj.clone();
            for i in 0..p { damped[[i, i]] += mu * jtj[[i, i]]; }
            let delta = damped.solve(jtr.data());
            if !solves.iter().any(|s| same_bits(&s.0, &damped.data) && same_bits(&s.1, &jtr.data().v)) {
                solves.push((damped.data.to_vec(), jtr.data().v.clone(), delta.v.clone()));
            }
            stop = delta.norm() <= eps2 * (params.iter().map(|x| x.val()).collect::<Vector>().norm() + eps2);
            if stop { break; }
            let newp = params.iter().zip(&delta).map(|(&x, &dd)| x + dd).collect::<Vec<_>>();
            let new_res: Vector = xs.iter().zip(ys).map(|(&x, y)| y - objective(e, &newp, &[&[x]]).val()).collect();
            let pred = delta.t_dot(mu * &delta + jtr.data());
            let rho = (res.dot(&res) - new_res.dot(&new_res)) / (0.5 * pred);
            if rho > 0. {
                params.copy_from_slice(&newp);
                let ng = xs.iter().map(|&x| { let r = objective(e, &newp, &[&[x]]); Vector::from(r.grad().wrt(&newp)) }).flatten().collect::<Vector>();
                jac = Matrix::new(ng, n as i32, p as i32);
                jtj = jac.t_dot(&jac); jtr = jac.t_dot(&new_res).to_matrix(); res = new_res;
                stop = jtr.inf_norm() <= eps1;
                if stop { break; }
                mu *= f64::max(1. / 3., 1. - (2. * rho - 1.).powi(3)); nu = 2.;
            } else { mu *= nu; nu *= 2.; }
            let vals: Vec<f64> = params.iter().map(|x| x.val()).collect();
            tape.clear();
            params = tape.add_vars(&vals);
        }
        let ji = jtj.inv();
        if !invs.iter().any(|s| same_bits(&s.0, &jtj.data)) { invs.push((jtj.data.to_vec(), ji.data.to_vec())); }
    });
}

fn ks_for(r: &mut Rng, kmax: usize, dense: usize, extra: usize) -> Vec<usize> {
    let mut ks: Vec<usize> = (0..=dense.min(kmax)).collect();
    for _ in 0..extra { ks.push(1 + r.below(kmax as u64) as usize); }
    ks.push(kmax); ks.sort(); ks.dedup(); ks
}
fn changing(rs: &[(usize, Result<Vec<f64>, String>)]) -> bool {
    // at least two iterations with a changing state: three distinct outcomes along the step budget
    let mut seen: Vec<&Vec<f64>> = vec![];
    for (_, r) in rs { if let Ok(v) = r { if !seen.iter().any(|s| same_bits(s, v)) { seen.push(v); } } }
    seen.len() >= 3
}

struct Prob { e: E, d: Vec<Vec<f64>>, x0: Vec<f64>, tag: &'static str }
fn problem(r: &mut Rng, which: u64) -> Prob {
    match which {
        0 => { let n = 1 + r.below(8) as usize; Prob { e: quadratic(r, n, true), d: vec![], x0: (0..n).map(|_| r.uniform(-3.0, 3.0)).collect(), tag: "quad-convex" } }
        1 => { let n = 1 + r.below(8) as usize; Prob { e: quadratic(r, n, false), d: vec![], x0: (0..n).map(|_| r.uniform(-3.0, 3.0)).collect(), tag: "quad-nonconvex" } }
        2 => Prob { e: rosenbrock(), d: vec![vec![1.0, if r.coin(0.5) { 100.0 } else { r.uniform(1.0, 100.0) }]], x0: vec![r.uniform(-1.5, 1.5), r.uniform(-1.0, 2.0)], tag: "rosenbrock" },
        3 => {
            let kind = *r.pick(&[0usize, 1, 3, 4, 6, 7]); let n = 3 + r.below(6) as usize;
            let (e, np) = ls_loss(kind, n);
            let xs: Vec<f64> = (0..n).map(|i| i as f64 * 0.5 + r.uniform(-0.1, 0.1)).collect();
            let truth: Vec<f64> = (0..np).map(|_| r.uniform(0.3, 1.5)).collect();
            let ys: Vec<f64> = xs.iter().map(|&x| { let m = if kind == 7 { logistic(C::Lit(x)) } else { curve(kind, C::Lit(x)).0 }; dual(&m, &truth, &[]).0 + 0.05 * r.normal() }).collect();
            Prob { e, d: vec![xs, ys], x0: (0..np).map(|_| r.uniform(0.2, 1.2)).collect(), tag: "least-squares" }
        }
        _ => {
            let np = 1 + r.below(4) as usize; let libm = r.coin(0.5);
            let d: Vec<Vec<f64>> = if r.coin(0.5) { vec![(0..3).map(|_| lit(r)).collect(), (0..2).map(|_| lit(r)).collect()] } else { vec![] };
            let rows: Vec<usize> = d.iter().map(|x| x.len()).collect();
            let depth = 2 + r.below(4) as u32;
            Prob { e: random_expr(r, depth, np, 0, &rows, libm), d, x0: (0..np).map(|_| r.uniform(-2.0, 2.0)).collect(), tag: if libm { "random-ast-libm" } else { "random-ast" } }
        }
    }
}

fn lm_problem(r: &mut Rng, nmax: usize) -> (E, Vec<Vec<f64>>, Vec<f64>, &'static str) {
    let x = C::Dat(0, 0);
    let which = r.below(8);
    let (e, np, tag): (E, usize, &'static str) = match which {
        0 | 1 => { let (e, k) = curve(0, x); (e, k, "lm-linear") }
        2 => { let (e, k) = curve(4, x); (e, k, "lm-quadratic-in-x") }
        3 | 4 => { let (e, k) = curve(1, x); (e, k, "lm-exponential") }
        5 => (logistic(x), 3, "lm-logistic"),
        6 => { let (e, k) = curve(6, x); (e, k, "lm-rational") }
        _ => { let (e, k) = curve(5, x); (e, k, "lm-constant") }
    };
    let n = 5.max(np) + r.below((nmax - 4) as u64) as usize;
    let xs: Vec<f64> = (0..n).map(|i| (i as f64) * (4.0 / n as f64) + r.uniform(-0.05, 0.05) - if which == 5 { 2.0 } else { 0.0 }).collect();
    let truth: Vec<f64> = match which { 3 | 4 => vec![r.uniform(0.5, 2.0), r.uniform(-0.8, 0.6)], 5 => vec![r.uniform(1.0, 3.0), r.uniform(0.8, 2.0), r.uniform(-0.5, 0.5)], _ => (0..np).map(|_| r.uniform(-2.0, 2.0)).collect() };
    let noise = *r.pick(&[0.0, 0.01, 0.1]);
    let ys: Vec<f64> = xs.iter().map(|&xv| dual(&e, &truth, &[&[xv]]).0 + noise * r.normal()).collect();
    let x0: Vec<f64> = truth.iter().map(|t| if r.coin(0.5) { t + r.uniform(-1.0, 1.0) } else { r.uniform(-3.0, 3.0) }).collect();
    (e, vec![xs, ys], x0, tag)
}

// ---------------------------------------------------------------------------------------------
pub fn gen(tier: &str, seed: u64, outdir: &str) {
    let mut r = Rng::new(seed ^ 0xC10);
    let mut cs = Cases::new("C10");
    let thorough = tier == "thorough";
    let _q = Quiet::new();

    // 1. the tape itself: value and gradient of random programs (leaf and look-ahead parameters)
    let ngrad = if thorough { 4000 } else { 500 };
    for it in 0..ngrad {
        let mut p = problem(&mut r, if it % 3 == 0 { it as u64 % 4 } else { 4 });
        if it % 7 == 3 { let i = r.below(p.x0.len() as u64) as usize; p.x0[i] = special(&mut r); }
        if it % 11 == 5 { for v in p.x0.iter_mut() { *v = special(&mut r); } }
        let la = r.coin(0.3);
        crate::libm::start();
        let out = grad_impl(&p.e, &p.d, &p.x0, la);
        let t = crate::libm::stop();
        let nt = out.as_ref().map(|v| v.iter().skip(1).any(|g| *g != 0.0 && g.is_finite())).unwrap_or(false);
        cs.push(app("CGrad", vec![etm(&p.e), data_tm(&p.d), fl(&p.x0), Tm::B(la), outcome_list(&out), libm_table(&t)]), &format!("grad/{}{}", p.tag, if la { "/lookahead" } else { "" }), nt);
    }
    // malformed programs: parameter / data / let index out of range, no parameters
    for it in 0..(if thorough { 200 } else { 40 }) {
        let np = r.below(3) as usize;
        let e = match it % 4 { 0 => E::Add(b(E::Par(np)), b(E::Par(0))), 1 => E::AddC(b(E::Par(0)), C::Dat(1, 0)), 2 => E::Mul(b(E::Par(0)), b(E::Var(0))), _ => E::Let(b(E::Par(0)), b(E::Add(b(E::Var(0)), b(E::Var(1))))) };
        let x0: Vec<f64> = (0..np).map(|_| r.uniform(-1.0, 1.0)).collect();
        let d = vec![vec![1.0]];
        let out = grad_impl(&e, &d, &x0, false);
        cs.push(app("CGrad", vec![etm(&e), data_tm(&d), fl(&x0), Tm::B(false), outcome_list(&out), libm_table(&Default::default())]), "grad/malformed", out.is_err());
        let rs: Vec<_> = [0usize, 1, 3].iter().map(|&k| (k, adam_impl(&e, &d, (0.1, 0.9, 0.999, 1e-8), &x0, k))).collect();
        cs.push(app("CAdam", vec![etm(&e), data_tm(&d), Tm::F(0.1), Tm::F(0.9), Tm::F(0.999), Tm::F(1e-8), fl(&x0), runs_tm(&rs), libm_table(&Default::default())]), "adam/malformed", true);
        let rs: Vec<_> = [0usize, 2].iter().map(|&k| (k, sgd_impl(&e, &d, (0.1, 0.5, it % 2 == 0), &x0, k))).collect();
        cs.push(app("CSgd", vec![etm(&e), data_tm(&d), Tm::F(0.1), Tm::F(0.5), Tm::B(it % 2 == 0), fl(&x0), runs_tm(&rs), libm_table(&Default::default())]), "sgd/malformed", true);
    }

    // 2. Adam and SGD trajectories: every step budget k in a dense prefix plus sampled k up to kmax
    let nopt = if thorough { 600 } else { 90 };
    let kmax = if thorough { 2000 } else { 200 };
    for it in 0..nopt {
        let p = problem(&mut r, (it as u64) % 5);
        let libm = uses_libm(&p.e);
        let full = it < 6;   // all k in 1..=200 (quick) / 1..=300 (thorough)
        let km = if libm { 60 } else { kmax };
        let ks = if full { ks_for(&mut r, if thorough { 300 } else { 200 }.min(km), km, 0) } else { ks_for(&mut r, km, if libm { 6 } else { 12 }, 4) };
        // Adam
        let step = *r.pick(&[1e-4, 1e-3, 0.01, 0.1, 0.5]); let b1 = *r.pick(&[0.9, 0.5, 0.99, 0.1]); let b2 = *r.pick(&[0.999, 0.9, 0.5, 0.99]);
        let eps = *r.pick(&[1e-8, 1e-8, 1e-3, 0.0]);
        crate::libm::start();
        let rs: Vec<_> = ks.iter().map(|&k| (k, adam_impl(&p.e, &p.d, (step, b1, b2, eps), &p.x0, k))).collect();
        let t = crate::libm::stop();
        cs.push(app("CAdam", vec![etm(&p.e), data_tm(&p.d), Tm::F(step), Tm::F(b1), Tm::F(b2), Tm::F(eps), fl(&p.x0), runs_tm(&rs), libm_table(&t)]), &format!("adam/{}", p.tag), changing(&rs));
        // SGD: plain, momentum, Nesterov
        let (mom, nest) = match it % 3 { 0 => (0.0, false), 1 => (*r.pick(&[0.5, 0.9, 0.99]), false), _ => (*r.pick(&[0.5, 0.9, 0.99]), true) };
        let step = *r.pick(&[1e-4, 1e-3, 0.01, 0.05, 0.1]);
        crate::libm::start();
        let rs: Vec<_> = ks.iter().map(|&k| (k, sgd_impl(&p.e, &p.d, (step, mom, nest), &p.x0, k))).collect();
        let t = crate::libm::stop();
        cs.push(app("CSgd", vec![etm(&p.e), data_tm(&p.d), Tm::F(step), Tm::F(mom), Tm::B(nest), fl(&p.x0), runs_tm(&rs), libm_table(&t)]),
                &format!("sgd/{}/{}", if nest { "nesterov" } else if mom != 0.0 { "momentum" } else { "plain" }, p.tag), changing(&rs));
    }
    // early stopping: objectives on which the iteration becomes stationary or flips sign (D22)
    for it in 0..(if thorough { 60 } else { 16 }) {
        let x = *r.pick(&[1.0, -3.0, 0.75, 1e-3]);
        // f = c x^2 with step*2c = 2: x -> -x ; with step*2c = 1: x -> 0 (stationary after one step)
        let (c, step) = match it % 4 { 0 => (2.0, 0.5), 1 => (1.0, 0.5), 2 => (4.0, 0.25), _ => (0.5, 0.25) };
        let e = E::MulC(b(E::Powi(b(E::Par(0)), 2)), C::Lit(c));
        let ks: Vec<usize> = (0..=6).collect();
        let nest = it % 8 >= 4;
        let rs: Vec<_> = ks.iter().map(|&k| (k, sgd_impl(&e, &[], (step, 0.0, nest), &[x], k))).collect();
        cs.push(app("CSgd", vec![etm(&e), data_tm(&[]), Tm::F(step), Tm::F(0.0), Tm::B(nest), fl(&[x]), runs_tm(&rs), libm_table(&Default::default())]), "sgd/early-stop", true);
        // Adam with a huge epsilon stalls: the update underflows relative to the parameter
        let rs: Vec<_> = ks.iter().map(|&k| (k, adam_impl(&e, &[], (1e-3, 0.9, 0.999, 1e20), &[x], k))).collect();
        cs.push(app("CAdam", vec![etm(&e), data_tm(&[]), Tm::F(1e-3), Tm::F(0.9), Tm::F(0.999), Tm::F(1e20), fl(&[x]), runs_tm(&rs), libm_table(&Default::default())]), "adam/early-stop", true);
    }
    // Adam::new rejects non-positive betas
    for (b1, b2) in [(0.0, 0.9), (0.9, 0.0), (-0.5, 0.9), (0.9, f64::NAN), (f64::NAN, 0.5), (1.0, 1.0), (1.5, 0.9)] {
        let e = E::Powi(b(E::Par(0)), 2);
        let rs: Vec<_> = [0usize, 1, 3].iter().map(|&k| (k, adam_impl(&e, &[], (0.1, b1, b2, 1e-8), &[1.0], k))).collect();
        cs.push(app("CAdam", vec![etm(&e), data_tm(&[]), Tm::F(0.1), Tm::F(b1), Tm::F(b2), Tm::F(1e-8), fl(&[1.0]), runs_tm(&rs), libm_table(&Default::default())]), "adam/betas", true);
    }

    // 3. Levenberg-Marquardt (inner solves recorded)
    let nlm = if thorough { 300 } else { 50 };
    for it in 0..nlm {
        let (e, d, x0, tag) = lm_problem(&mut r, if thorough && it % 10 == 0 { 60 } else { 24 });
        let hp = if it % 5 == 0 { (1e-6, 1e-6, 1e-2) } else { (*r.pick(&[1e-6, 1e-3, 1e-9]), *r.pick(&[1e-6, 1e-3, 1e-10]), *r.pick(&[1e-2, 1e-3, 1.0, 1e-6])) };
        let ks = ks_for(&mut r, if thorough { 60 } else { 30 }, if it < 4 { 30 } else { 4 }, 2);
        let (mut solves, mut invs) = (vec![], vec![]);
        crate::libm::start();
        let rs: Vec<_> = ks.iter().map(|&k| (k, lm_impl(&e, &d, hp, &x0, k))).collect();
        for &k in &ks { lm_record(&e, &d, hp, &x0, k, &mut solves, &mut invs); }
        let t = crate::libm::stop();
        let st = Tm::L(solves.iter().map(|(a, bb, x)| Tm::Tup(vec![fl(a), fl(bb), fl(x)])).collect());
        let it_ = Tm::L(invs.iter().map(|(a, x)| Tm::Tup(vec![fl(a), fl(x)])).collect());
        cs.push(app("CLm", vec![etm(&e), data_tm(&d), Tm::F(hp.0), Tm::F(hp.1), Tm::F(hp.2), fl(&x0), runs_tm(&rs), st, it_, libm_table(&t)]), tag, changing(&rs));
        // end to end: no table of inner solves; the Coq side computes damped.solve / jtj.inv with C01's executable models
        cs.push(app("CLmE", vec![etm(&e), data_tm(&d), Tm::F(hp.0), Tm::F(hp.1), Tm::F(hp.2), fl(&x0), runs_tm(&rs), libm_table(&t)]), &format!("e2e-{}", tag), changing(&rs));
    }
    // malformed LM calls: wrong number of data slices, unequal lengths, no points, no parameters
    for it in 0..(if thorough { 40 } else { 12 }) {
        let (e, mut d, mut x0, _) = lm_problem(&mut r, 8);
        match it % 4 { 0 => { d.pop(); } 1 => { d[1].pop(); } 2 => { d[0].clear(); d[1].clear(); } _ => { x0.clear(); } }
        let hp = (1e-6, 1e-6, 1e-2);
        let (mut solves, mut invs) = (vec![], vec![]);
        let rs: Vec<_> = [0usize, 2].iter().map(|&k| (k, lm_impl(&e, &d, hp, &x0, k))).collect();
        for k in [0usize, 2] { lm_record(&e, &d, hp, &x0, k, &mut solves, &mut invs); }
        let st = Tm::L(solves.iter().map(|(a, bb, x)| Tm::Tup(vec![fl(a), fl(bb), fl(x)])).collect());
        let it_ = Tm::L(invs.iter().map(|(a, x)| Tm::Tup(vec![fl(a), fl(x)])).collect());
        cs.push(app("CLm", vec![etm(&e), data_tm(&d), Tm::F(hp.0), Tm::F(hp.1), Tm::F(hp.2), fl(&x0), runs_tm(&rs), st, it_, libm_table(&Default::default())]), "lm/malformed", true);
        cs.push(app("CLmE", vec![etm(&e), data_tm(&d), Tm::F(hp.0), Tm::F(hp.1), Tm::F(hp.2), fl(&x0), runs_tm(&rs), libm_table(&Default::default())]), "e2e-lm/malformed", true);
    }

    // 4. coverage audit (own random stream; the cases above are unchanged): the other public constructors / setters, hyper-parameters
    //    at the ends of their ranges, LM models with 3..5 parameters, exactly 5 points, n = p, starts at the origin
    let mut r2 = Rng::new(seed ^ 0xA0D1_7C10);
    let sgd_def = sgd_default_fields();
    for it in 0..(if thorough { 40 } else { 8 }) {
        let p = problem(&mut r2, (it as u64) % 5);
        let ks: Vec<usize> = vec![0, 1, 2, 3, 7];
        let form = 1 + (it % 4) as u8;
        let hp = match form { 1 => KB, 2 | 3 => (step_range(&mut r2), KB.1, KB.2, KB.3), _ => (step_range(&mut r2), beta_edge(&mut r2), beta_edge(&mut r2), 1e-8) };
        crate::libm::start();
        let rs: Vec<_> = ks.iter().map(|&k| (k, adam_via(form, &p.e, &p.d, hp, &p.x0, k))).collect();
        let t = crate::libm::stop();
        cs.push(app("CAdam", vec![etm(&p.e), data_tm(&p.d), Tm::F(hp.0), Tm::F(hp.1), Tm::F(hp.2), Tm::F(hp.3), fl(&p.x0), runs_tm(&rs), libm_table(&t)]), "adam/constructors", changing(&rs));
        let sform = 1 + (it % 3) as u8;
        let shp = match (sform, sgd_def) { (1, Some(d)) => Some(d), (2, Some(d)) => Some((step_range(&mut r2), d.1, d.2)), (3, _) => Some((step_range(&mut r2), *r2.pick(&[0.0, 0.99, 0.5]), it % 2 == 0)), _ => None };
        if let Some(hs) = shp {
            crate::libm::start();
            let rs: Vec<_> = ks.iter().map(|&k| (k, sgd_via(sform, &p.e, &p.d, hs, &p.x0, k))).collect();
            let t = crate::libm::stop();
            cs.push(app("CSgd", vec![etm(&p.e), data_tm(&p.d), Tm::F(hs.0), Tm::F(hs.1), Tm::B(hs.2), fl(&p.x0), runs_tm(&rs), libm_table(&t)]), "sgd/constructors", changing(&rs));
        }
    }
    for it in 0..(if thorough { 60 } else { 10 }) {
        let p = problem(&mut r2, (it as u64) % 5);
        let ks = ks_for(&mut r2, 40, 6, 2);
        let hp = (step_range(&mut r2), beta_edge(&mut r2), beta_edge(&mut r2), *r2.pick(&[1e-8, 0.0, 1e-3]));
        crate::libm::start();
        let rs: Vec<_> = ks.iter().map(|&k| (k, adam_impl(&p.e, &p.d, hp, &p.x0, k))).collect();
        let t = crate::libm::stop();
        cs.push(app("CAdam", vec![etm(&p.e), data_tm(&p.d), Tm::F(hp.0), Tm::F(hp.1), Tm::F(hp.2), Tm::F(hp.3), fl(&p.x0), runs_tm(&rs), libm_table(&t)]), "adam/hyper-parameter-ends", changing(&rs));
        let hs = (step_range(&mut r2), if it % 2 == 0 { 0.0 } else { 0.99 }, it % 4 < 2);
        crate::libm::start();
        let rs: Vec<_> = ks.iter().map(|&k| (k, sgd_impl(&p.e, &p.d, hs, &p.x0, k))).collect();
        let t = crate::libm::stop();
        cs.push(app("CSgd", vec![etm(&p.e), data_tm(&p.d), Tm::F(hs.0), Tm::F(hs.1), Tm::B(hs.2), fl(&p.x0), runs_tm(&rs), libm_table(&t)]), "sgd/hyper-parameter-ends", changing(&rs));
    }
    for it in 0..(if thorough { 70 } else { 14 }) {
        let model = if it % 2 == 0 { 6 + (it / 2) % 7 } else { (it / 2) % 6 };
        // (the tape model's reverse sweep is quadratic in the number of points: 200 points are left to the oracle)
        let n = [5usize, 12, 7, 40, 24, 5, 6][it % 7];
        let noise = *r2.pick(&[0.0, 0.01, 0.1, 0.3]);
        let (e, d, x0, tag) = lm_problem_wide(&mut r2, model, n, noise, (it % 6) as u8);
        let via_default = it % 4 == 0;
        let hp = if via_default { (1e-6, 1e-6, 1e-2) } else { (*r2.pick(&[1e-6, 1e-9, 0.0]), *r2.pick(&[1e-6, 1e-10, 0.0]), *r2.pick(&[1e-2, 1e-3, 1.0, 10.0])) };
        let ks = if n == 40 { vec![0usize, 1, 2] } else { ks_for(&mut r2, 20, 3, 1) };
        let (mut solves, mut invs) = (vec![], vec![]);
        crate::libm::start();
        let rs: Vec<_> = ks.iter().map(|&k| (k, if via_default { lm_impl_default(&e, &d, &x0, k) } else { lm_impl(&e, &d, hp, &x0, k) })).collect();
        for &k in &ks { lm_record(&e, &d, hp, &x0, k, &mut solves, &mut invs); }
        let t = crate::libm::stop();
        let st = Tm::L(solves.iter().map(|(a, bb, x)| Tm::Tup(vec![fl(a), fl(bb), fl(x)])).collect());
        let it_ = Tm::L(invs.iter().map(|(a, x)| Tm::Tup(vec![fl(a), fl(x)])).collect());
        cs.push(app("CLm", vec![etm(&e), data_tm(&d), Tm::F(hp.0), Tm::F(hp.1), Tm::F(hp.2), fl(&x0), runs_tm(&rs), st, it_, libm_table(&t)]), &format!("wide-{}", tag), changing(&rs));
        cs.push(app("CLmE", vec![etm(&e), data_tm(&d), Tm::F(hp.0), Tm::F(hp.1), Tm::F(hp.2), fl(&x0), runs_tm(&rs), libm_table(&t)]), &format!("e2e-wide-{}", tag), changing(&rs));
    }
    drop(_q);
    cs.write(outdir, if thorough { 40 } else { 25 },
             "objective programs as ASTs over reverse::Var (random convex / non-convex quadratics in 1..8 dimensions, Rosenbrock, least-squares losses with exp/sin/powi/division nodes, arbitrary random ASTs over every node kind with let-sharing, special values in the parameters for the gradient cases); Adam and SGD (plain / momentum / Nesterov) compared for every step budget k of a dense prefix (all k up to 200 resp. 300 for six problems) plus sampled k up to 200 (quick) / 2000 (thorough); LM on linear, quadratic, exponential, logistic, rational and constant curve fits with 5..24 (60) points and poor starts, inner LU solves recorded and keyed bitwise, and every LM case ALSO end to end (tags e2e-*: no table of inner solves, damped.solve / jtj.inv computed inside Coq by C01's executable models of Matrix::solve / Matrix::inv); malformed streams (index out of range, no parameters, non-positive betas, wrong data shapes); coverage-audit additions: Adam::default / with_stepsize / set_stepsize, SGD::default / set_stepsize, LM::default, step sizes over 1e-4..0.5, betas at both ends of (0,1), momentum 0 and 0.99 in both forms, LM models with 3..5 parameters (cubic, quartic, exponential sums with offset, logistic with offset / trend), exactly 5 points, n = p, 40 points, starts at the origin / with a zero coordinate / at the generating parameters, tolerances 0 and tau = 10; non-trivial = at least three distinct parameter vectors along the step budgets (two iterations with a changing state), a finite non-zero gradient entry (gradient cases), or a rejected call; distinct by hash of the case term");
}

// ---------------------------------------------------------------------------------------------
// failure-search oracle: the property statement against the implementation only
const EPS: f64 = f64::EPSILON;
fn tape_grad(e: &E, d: &[&[f64]], x: &[f64]) -> Vec<f64> {
    let tape = Tape::new(); let ps = tape.add_vars(x); let r = objective(e, &ps, d); r.grad().wrt(&ps)
}
/// "the parameters have stopped changing": every coordinate moved by less than 2^-52 relative to the
/// smaller magnitude (absolute when a coordinate is zero), sign included
fn stopped(new: &[f64], old: &[f64]) -> bool {
    new.iter().zip(old).all(|(a, c)| { let s = if *a == 0.0 || *c == 0.0 { 1.0 } else { a.abs().min(c.abs()) }; (a - c).abs() <= EPS * s || (a.is_nan() && c.is_nan()) })
}
/// Kingma-Ba with bias correction, plain Rust, no stopping
fn adam_ref(e: &E, d: &[&[f64]], hp: (f64, f64, f64, f64), x0: &[f64], k: usize) -> Vec<Vec<f64>> {
    let (a, b1, b2, eps) = hp; let n = x0.len();
    let (mut m, mut v, mut th) = (vec![0.0; n], vec![0.0; n], x0.to_vec());
    let mut out = vec![th.clone()];
    for t in 1..=k {
        let g = tape_grad(e, d, &th);
        for i in 0..n {
            m[i] = b1 * m[i] + (1. - b1) * g[i];
            v[i] = b2 * v[i] + (1. - b2) * g[i] * g[i];
            let mh = m[i] / (1. - b1.powi(t as i32)); let vh = v[i] / (1. - b2.powi(t as i32));
            th[i] -= a * mh / (vh.sqrt() + eps);
        }
        out.push(th.clone());
    }
    out
}
/// v_t = mom v_{t-1} + step grad(theta - [nesterov] mom v_{t-1}); theta_t = theta_{t-1} - v_t
fn sgd_ref(e: &E, d: &[&[f64]], hp: (f64, f64, bool), x0: &[f64], k: usize) -> Vec<Vec<f64>> {
    let (a, mom, nest) = hp; let n = x0.len();
    let (mut u, mut th) = (vec![0.0; n], x0.to_vec());
    let mut out = vec![th.clone()];
    for _ in 1..=k {
        let at: Vec<f64> = if nest { (0..n).map(|i| th[i] - mom * u[i]).collect() } else { th.clone() };
        let g = tape_grad(e, d, &at);
        for i in 0..n { u[i] = mom * u[i] + a * g[i]; th[i] -= u[i]; }
        out.push(th.clone());
    }
    out
}
fn judge(name: &str, got: &Result<Vec<f64>, String>, traj: &[Vec<f64>], k: usize, input: &str, out: &mut Vec<Finding>) {
    // a trajectory that left the finite range is outside the property (and inf/NaN gradients differ between leaf and look-ahead nodes)
    if traj[..=k].iter().any(|t| t.iter().any(|x| !x.is_finite())) { return; }
    match got {
        Err(m) => out.push(Finding { class: format!("{}:panics", name), what: format!("{} panicked on a well-formed call: {}", name, m), input: input.into() }),
        Ok(v) => {
            if same_bits(v, &traj[k]) { return; }
            let matches: Vec<usize> = (1..k).filter(|&j| same_bits(v, &traj[j])).collect();
            match matches.first() {
                None => out.push(Finding { class: format!("{}:not-kth-iterate", name), what: format!("{} with budget {} returned {:?}; the published recurrence gives {:?} and no earlier iterate matches", name, k, v, traj[k]), input: input.into() }),
                // (an orbit may revisit a point: accept if the stop is justified at any of the matching steps)
                Some(&j) => if !matches.iter().any(|&j| stopped(&traj[j], &traj[j - 1])) {
                    out.push(Finding { class: format!("{}:early-stop-while-changing", name), what: format!("{} with budget {} stopped after step {} at {:?} although the previous iterate was {:?} (the parameters were still changing; iterate {} is {:?})", name, k, j, traj[j], traj[j - 1], k, traj[k]), input: input.into() });
                },
            }
        }
    }
}

fn rss(e: &E, xs: &[f64], ys: &[f64], p: &[f64]) -> f64 { xs.iter().zip(ys).map(|(&x, &y)| { let r = y - dual(e, p, &[&[x]]).0; r * r }).sum() }
/// Gauss-Jordan inverse with partial pivoting (reference for the covariance clause)
fn inv_ref(a: &[f64], n: usize) -> Option<Vec<f64>> {
    let mut m = vec![0.0; n * 2 * n];
    for i in 0..n { for j in 0..n { m[i * 2 * n + j] = a[i * n + j]; } m[i * 2 * n + n + i] = 1.0; }
    for c in 0..n {
        let piv = (c..n).max_by(|&i, &j| m[i * 2 * n + c].abs().partial_cmp(&m[j * 2 * n + c].abs()).unwrap_or(std::cmp::Ordering::Equal))?;
        if m[piv * 2 * n + c].abs() < 1e-300 { return None; }
        for j in 0..2 * n { m.swap(c * 2 * n + j, piv * 2 * n + j); }
        let pv = m[c * 2 * n + c];
        for j in 0..2 * n { m[c * 2 * n + j] /= pv; }
        for i in 0..n { if i != c { let f = m[i * 2 * n + c]; if f != 0.0 { for j in 0..2 * n { m[i * 2 * n + j] -= f * m[c * 2 * n + j]; } } } }
    }
    Some((0..n).flat_map(|i| (0..n).map(move |j| (i, j))).map(|(i, j)| m[i * 2 * n + n + j]).collect())
}

// ---------------------------------------------------------------------------------------------
// coverage audit (the property's quantifier against the evaluation points): what follows ADDS evaluation points; the
// criteria are those of `judge` / `lm_judge` above, unchanged.

/// curve models with 3..5 parameters (the quantifier says 1..5): polynomials (linear in the parameters), sums of
/// exponentials, logistic curves with offset / trend
fn curve_wide(kind: usize, x: C) -> (E, usize, &'static str) {
    let px = |i: usize, n: i32, x: &C| -> E { // p_i x^n written as p_i * (0 p_0 + x)^n so that x enters as a constant
        E::Mul(b(E::Par(i)), b(E::Powi(b(E::AddC(b(E::MulC(b(E::Par(0)), C::Lit(0.0))), x.clone())), n))) };
    let pexp = |a: usize, r: usize, x: &C| -> E { E::Mul(b(E::Par(a)), b(E::Fn(U::Exp, b(E::MulC(b(E::Par(r)), x.clone()))))) };
    match kind {
        0 => (sum_chain(vec![E::Par(0), E::MulC(b(E::Par(1)), x.clone()), px(2, 2, &x), px(3, 3, &x)]), 4, "lm-cubic"),
        1 => (sum_chain(vec![E::Par(0), E::MulC(b(E::Par(1)), x.clone()), px(2, 2, &x), px(3, 3, &x), px(4, 4, &x)]), 5, "lm-quartic"),
        2 => (E::Add(b(pexp(0, 1, &x)), b(E::Par(2))), 3, "lm-exponential-offset"),
        3 => (E::Add(b(pexp(0, 1, &x)), b(pexp(2, 3, &x))), 4, "lm-biexponential"),
        4 => (sum_chain(vec![pexp(0, 1, &x), pexp(2, 3, &x), E::Par(4)]), 5, "lm-biexponential-offset"),
        5 => (E::Add(b(logistic(x)), b(E::Par(3))), 4, "lm-logistic-offset"),
        _ => (sum_chain(vec![logistic(x.clone()), E::Par(3), E::MulC(b(E::Par(4)), x)]), 5, "lm-logistic-trend"),
    }
}
/// a curve-fitting problem with exactly `n` points for one of the 13 models (the 6 of `lm_problem`'s table, the 7 of `curve_wide`)
fn lm_problem_wide(r: &mut Rng, model: usize, n: usize, noise: f64, start: u8) -> (E, Vec<Vec<f64>>, Vec<f64>, &'static str) {
    let x = C::Dat(0, 0);
    let (e, np, tag): (E, usize, &'static str) = match model {
        0 => { let (e, k) = curve(0, x); (e, k, "lm-linear") }
        1 => { let (e, k) = curve(4, x); (e, k, "lm-quadratic-in-x") }
        2 => { let (e, k) = curve(1, x); (e, k, "lm-exponential") }
        3 => (logistic(x), 3, "lm-logistic"),
        4 => { let (e, k) = curve(6, x); (e, k, "lm-rational") }
        5 => { let (e, k) = curve(5, x); (e, k, "lm-constant") }
        m => curve_wide(m - 6, x),
    };
    let logi = tag.starts_with("lm-logistic");
    let xs: Vec<f64> = (0..n).map(|i| (i as f64) * (4.0 / n as f64) + r.uniform(-0.05, 0.05) - if logi { 2.0 } else { 0.0 }).collect();
    let truth: Vec<f64> = match tag {
        "lm-exponential" => vec![r.uniform(0.5, 2.0), r.uniform(-0.8, 0.6)],
        "lm-exponential-offset" => vec![r.uniform(0.5, 2.0), r.uniform(-0.8, 0.6), r.uniform(-2.0, 2.0)],
        "lm-biexponential" => vec![r.uniform(0.5, 2.0), r.uniform(-0.8, -0.1), r.uniform(0.5, 2.0), r.uniform(0.1, 0.6)],
        "lm-biexponential-offset" => vec![r.uniform(0.5, 2.0), r.uniform(-0.8, -0.1), r.uniform(0.5, 2.0), r.uniform(0.1, 0.6), r.uniform(-2.0, 2.0)],
        "lm-logistic" => vec![r.uniform(1.0, 3.0), r.uniform(0.8, 2.0), r.uniform(-0.5, 0.5)],
        "lm-logistic-offset" => vec![r.uniform(1.0, 3.0), r.uniform(0.8, 2.0), r.uniform(-0.5, 0.5), r.uniform(-2.0, 2.0)],
        "lm-logistic-trend" => vec![r.uniform(1.0, 3.0), r.uniform(0.8, 2.0), r.uniform(-0.5, 0.5), r.uniform(-2.0, 2.0), r.uniform(-0.5, 0.5)],
        _ => (0..np).map(|_| r.uniform(-2.0, 2.0)).collect(),
    };
    let ys: Vec<f64> = xs.iter().map(|&xv| dual(&e, &truth, &[&[xv]]).0 + noise * r.normal()).collect();
    // poor starts: near / far from the truth as in `lm_problem`, the origin, one coordinate at zero, far away
    let x0: Vec<f64> = match start {
        0 => truth.iter().map(|t| if r.coin(0.5) { t + r.uniform(-1.0, 1.0) } else { r.uniform(-3.0, 3.0) }).collect(),
        1 => vec![0.0; np],
        2 => { let z = r.below(np as u64) as usize; (0..np).map(|i| if i == z { 0.0 } else { r.uniform(-3.0, 3.0) }).collect() }
        3 => truth.iter().map(|_| r.uniform(-3.0, 3.0)).collect(),
        4 => truth.iter().map(|_| r.uniform(-10.0, 10.0)).collect(),
        6 => truth.iter().map(|_| r.uniform(-1.0, 1.0) * 500.0).collect(),
        7 => truth.iter().map(|_| (if r.coin(0.5) { 1.0 } else { -1.0 }) * r.uniform(0.5, 1.0) * 1e6).collect(),
        _ => truth.clone(),
    };
    (e, vec![xs, ys], x0, tag)
}

/// a polynomial fit of degree 2..4 with 50..200 points, a poor start and tau = 1, determined by `sub` alone
fn lm_poly_case(sub: u64) -> (E, Vec<Vec<f64>>, Vec<f64>, (f64, f64, f64)) {
    let mut r = Rng::new(sub ^ 0x90C1_0C10);
    let model = *r.pick(&[1usize, 6, 7, 7]);
    let n = *r.pick(&[50usize, 120, 200, 200]);
    let noise = *r.pick(&[0.0, 0.01, 0.1, 0.3]);
    let start = if r.coin(0.5) { 0 } else { 3 };
    let (e, d, x0, _) = lm_problem_wide(&mut r, model, n, noise, start);
    (e, d, x0, (*r.pick(&[1e-6, 1e-9]), *r.pick(&[1e-6, 1e-10]), 1.0))
}
/// the public constructors / setters of Adam (form 0 = `new`)
fn adam_via(form: u8, e: &E, d: &[Vec<f64>], hp: (f64, f64, f64, f64), x: &[f64], k: usize) -> Result<Vec<f64>, String> {
    let dr = refs(d);
    catch(|| {
        let o = match form {
            0 => Adam::new(hp.0, hp.1, hp.2, hp.3),
            1 => Adam::default(),
            2 => Adam::with_stepsize(hp.0),
            3 => { let mut o = Adam::default(); o.set_stepsize(hp.0); o }
            _ => { let mut o = Adam::new(7.5, hp.1, hp.2, hp.3); o.set_stepsize(hp.0); o }
        };
        o.optimize(|p, dd| objective(e, p, dd), x, &dr, k).v
    })
}
fn adam_form_name(form: u8, hp: (f64, f64, f64, f64)) -> String {
    match form { 0 => format!("Adam::new({:e}, {:e}, {:e}, {:e})", hp.0, hp.1, hp.2, hp.3), 1 => "Adam::default()".into(), 2 => format!("Adam::with_stepsize({:e})", hp.0),
                 3 => format!("Adam::default() + set_stepsize({:e})", hp.0), _ => format!("Adam::new(7.5, {:e}, {:e}, {:e}) + set_stepsize({:e})", hp.1, hp.2, hp.3, hp.0) }
}
/// the defaults "recommended by Kingma and Ba 2014" (doc comment of `impl Default for Adam`)
const KB: (f64, f64, f64, f64) = (0.001, 0.9, 0.999, 1e-8);
/// `SGD`'s fields are private: momentum and the Nesterov flag of `SGD::default()` are read from its `Debug` text
fn sgd_default_fields() -> Option<(f64, f64, bool)> {
    let t = format!("{:?}", SGD::default());
    let field = |name: &str| -> Option<String> { let i = t.find(name)? + name.len(); let rest = &t[i..]; let j = rest.find(|c| c == ',' || c == '}')?; Some(rest[..j].trim().to_string()) };
    Some((field("stepsize:")?.parse().ok()?, field("momentum:")?.parse().ok()?, field("nesterov:")?.parse().ok()?))
}
/// form 0 = `new`, 1 = `default()`, 2 = `default()` + `set_stepsize`, 3 = `new` with another step + `set_stepsize`
fn sgd_via(form: u8, e: &E, d: &[Vec<f64>], hp: (f64, f64, bool), x: &[f64], k: usize) -> Result<Vec<f64>, String> {
    let dr = refs(d);
    catch(|| {
        let o = match form {
            0 => SGD::new(hp.0, hp.1, hp.2),
            1 => SGD::default(),
            2 => { let mut o = SGD::default(); o.set_stepsize(hp.0); o }
            _ => { let mut o = SGD::new(7.5, hp.1, hp.2); o.set_stepsize(hp.0); o }
        };
        o.optimize(|p, dd| objective(e, p, dd), x, &dr, k).v
    })
}
fn sgd_form_name(form: u8, hp: (f64, f64, bool)) -> String {
    match form { 0 => format!("SGD::new({:e}, {:e}, {})", hp.0, hp.1, hp.2), 1 => "SGD::default()".into(), 2 => format!("SGD::default() + set_stepsize({:e})", hp.0),
                 _ => format!("SGD::new(7.5, {:e}, {}) + set_stepsize({:e})", hp.1, hp.2, hp.0) }
}
/// values of (0, 1) near both ends, and ordinary ones
fn beta_edge(r: &mut Rng) -> f64 {
    *r.pick(&[5e-324, 1e-300, 1e-8, 1e-3, 0.01, 0.5, 0.9, 0.999, 0.9999, 1.0 - 1e-10, 1.0 - EPS / 2.0])
}
/// step sizes over the whole stated range 1e-4..0.5 (log-uniform, and both ends exactly)
fn step_range(r: &mut Rng) -> f64 {
    match r.below(6) { 0 => 1e-4, 1 => 0.5, _ => (r.uniform((1e-4f64).ln(), (0.5f64).ln())).exp().clamp(1e-4, 0.5) }
}

fn lm_is_linear(tag: &str) -> bool { matches!(tag, "lm-linear" | "lm-quadratic-in-x" | "lm-constant" | "lm-cubic" | "lm-quartic") }
/// the three LM clauses on one call of the implementation: (a) RSS not larger than at the start, (b) covariance
/// s^2 (J^T J)^-1 at the returned point, (c) [check_ls] the least-squares solution of a model linear in the parameters
fn lm_judge(e: &E, d: &[Vec<f64>], x0: &[f64], hp: (f64, f64, f64), k: usize, via_default: bool, check_ls: bool, tried: &mut u64, out: &mut Vec<Finding>) {
    let (xs, ys) = (&d[0], &d[1]); let (n, p) = (xs.len(), x0.len());
    let ctor = if via_default { "LM::default()".to_string() } else { format!("LM::new({:e}, {:e}, {:e})", hp.0, hp.1, hp.2) };
    let input = format!("model={} xs={} ys={} start={} {} maxsteps={}", etm(e).to_string(), json_floats(xs), json_floats(ys), json_floats(x0), ctor, k);
    *tried += 1;
    crumb(&input);
    let got = if via_default { lm_impl_default(e, d, x0, k) } else { lm_impl(e, d, hp, x0, k) };
    let v = match got { Ok(v) => v, Err(m) => { out.push(Finding { class: "lm:panics".into(), what: format!("LM panicked on a well-formed problem: {}", m), input }); return; } };
    let (popt, cov) = (&v[..p], &v[p..]);
    let (r0, r1) = (rss(e, xs, ys, x0), rss(e, xs, ys, popt));
    // (a) never a larger residual sum of squares than the start (1e-9 relative slack for the two summation orders)
    if !(r1 <= r0 * (1.0 + 1e-9) + 1e-300) && r0.is_finite() {
        out.push(Finding { class: if r1.is_nan() { "lm:returns-nan-parameters".into() } else { "lm:rss-increased".into() }, what: format!("RSS at the start {:e}, at the returned parameters {:?}: {:e}", r0, popt, r1), input: input.clone() });
    }
    if popt.iter().any(|x| !x.is_finite()) { return; }
    // (b) covariance = rss/(n-p) (J^T J)^-1 at the returned point, J by forward-mode differentiation
    if n > p && k >= 1 {
        let mut jtj = vec![0.0; p * p];
        for &x in xs.iter() { let (_, g) = dual(e, popt, &[&[x]]); for i in 0..p { for j in 0..p { jtj[i * p + j] += g[i] * g[j]; } } }
        if let Some(ji) = inv_ref(&jtj, p) {
            let cond = jtj.iter().fold(0.0f64, |a, x| a.max(x.abs())) * ji.iter().fold(0.0f64, |a, x| a.max(x.abs()));
            // (a residual at rounding level makes rss itself ill-conditioned: compare only above it)
            let ysq: f64 = ys.iter().map(|y| y * y).sum();
            if cond < 1e6 && ji.iter().all(|x| x.is_finite()) && r1.is_finite() && r1 > 1e-12 * ysq {
                let s2 = r1 / (n - p) as f64;
                let scale = ji.iter().fold(0.0f64, |a, x| a.max(x.abs())) * s2;
                let bad = (0..p * p).any(|i| !((cov[i] - s2 * ji[i]).abs() <= (1e-9 * cond + 1e-6) * scale + 1e-300));
                if bad { out.push(Finding { class: "lm:covariance".into(), what: format!("covariance {:?}, s^2 (J^T J)^-1 at the returned point = {:?}", cov, ji.iter().map(|x| x * s2).collect::<Vec<_>>()), input: input.clone() }); }
            }
        }
    }
    // (c) models linear in the parameters: the least-squares solution (normal equations) is reached
    if check_ls {
        *tried += 1;
        // design matrix = gradient of the model wrt the parameters (constant in p)
        let rows: Vec<Vec<f64>> = xs.iter().map(|&x| dual(e, &vec![0.0; p], &[&[x]]).1).collect();
        let mut ata = vec![0.0; p * p]; let mut aty = vec![0.0; p];
        for (row, &y) in rows.iter().zip(ys) { for i in 0..p { aty[i] += row[i] * y; for j in 0..p { ata[i * p + j] += row[i] * row[j]; } } }
        if let Some(ai) = inv_ref(&ata, p) {
            let sol: Vec<f64> = (0..p).map(|i| (0..p).map(|j| ai[i * p + j] * aty[j]).sum()).collect();
            let rs = rss(e, xs, ys, &sol);
            // the returned point must be (nearly) as good as the least-squares solution
            if !(r1 <= rs + 1e-6 * (1.0 + rs) ) {
                out.push(Finding { class: "lm:linear-model-not-solved".into(), what: format!("returned {:?} (RSS {:e}); the least-squares solution is {:?} (RSS {:e})", popt, r1, sol, rs), input: input.clone() });
            }
        }
    }
}

/// Coverage-audit evaluation points (own random stream, so the points above are unchanged).
fn oracle_wide(thorough: bool, seed: u64, tried: &mut u64, out: &mut Vec<Finding>) {
    let mut r = Rng::new(seed ^ 0xA0D1_7C10);
    let fmt_in = |e: &E, d: &[Vec<f64>], x0: &[f64]| format!("objective={} data={} start={}", etm(e).to_string(), d.iter().map(|x| json_floats(x)).collect::<Vec<_>>().join(","), json_floats(x0));
    let kmax = if thorough { 2000 } else { 200 };
    let sgd_hp = |r: &mut Rng, it: usize| -> (f64, f64, bool) {
        // momentum over the closed range [0, 0.99], both ends exactly, in the plain and in the Nesterov form
        let mom = match it % 5 { 0 => 0.0, 1 => 0.99, _ => r.uniform(0.0, 0.99) };
        (step_range(r), mom, it % 2 == 1)
    };

    // W1. EVERY step budget 1..=200 (thorough: 1..=300, then every 7th up to 2000) on problems of every family
    let ks: Vec<usize> = if thorough { (1..=300).chain((301..=2000).step_by(7)).chain([1999, 2000]).collect() } else { (1..=200).collect() };
    for it in 0..(if thorough { 20 } else { 10 }) {
        let p = problem(&mut r, (it as u64) % 5);
        let dr = refs(&p.d);
        let kk_max = *ks.last().unwrap();
        let hp = (step_range(&mut r), r.uniform(0.05, 0.99), r.uniform(0.05, 0.9999), *r.pick(&[1e-8, 0.0, 1e-3]));
        let input = format!("{} Adam::new({:e}, {:e}, {:e}, {:e})", fmt_in(&p.e, &p.d, &p.x0), hp.0, hp.1, hp.2, hp.3);
        crumb(&format!("{} maxsteps={}", input, kk_max));
        let traj = adam_ref(&p.e, &dr, hp, &p.x0, kk_max);
        for &kk in &ks {
            *tried += 1;
            let inp = format!("{} maxsteps={}", input, kk);
            crumb(&inp);
            judge("adam", &adam_impl(&p.e, &p.d, hp, &p.x0, kk), &traj, kk, &inp, out);
            if out.len() > 40 { return; }
        }
        let hs = sgd_hp(&mut r, it / 5 + it);
        let input = format!("{} SGD::new({:e}, {:e}, {})", fmt_in(&p.e, &p.d, &p.x0), hs.0, hs.1, hs.2);
        crumb(&format!("{} maxsteps={}", input, kk_max));
        let traj = sgd_ref(&p.e, &dr, hs, &p.x0, kk_max);
        for &kk in &ks {
            *tried += 1;
            let inp = format!("{} maxsteps={}", input, kk);
            crumb(&inp);
            judge("sgd", &sgd_impl(&p.e, &p.d, hs, &p.x0, kk), &traj, kk, &inp, out);
            if out.len() > 40 { return; }
        }
    }

    // W2. hyper-parameters over the whole stated ranges: step sizes 1e-4..0.5 (continuous, both ends), beta1 / beta2 near both ends of
    //     (0, 1), momentum 0 and 0.99 exactly in both forms; W4. start points: the origin, a zero coordinate, -0, far / tiny scales;
    //     thorough: objectives with exp / sin nodes up to the full budget 2000 (the search above stops them at 200)
    for it in 0..(if thorough { 1500 } else { 200 }) {
        let mut p = problem(&mut r, (it as u64) % 5);
        match it % 12 {
            1 => { for v in p.x0.iter_mut() { *v = 0.0; } }
            3 => { let i = r.below(p.x0.len() as u64) as usize; p.x0[i] = 0.0; }
            5 => { for v in p.x0.iter_mut() { *v = -0.0; } }
            7 => { let sc = *r.pick(&[1e3, 1e6, 1e-6, 1e-12]); for v in p.x0.iter_mut() { *v *= sc; } }
            _ => {}
        }
        let dr = refs(&p.d);
        let k = if it % 4 == 0 { kmax } else { 1 + r.below(60) as usize };
        let k = if uses_libm(&p.e) && !(thorough && it % 8 == 0) { k.min(200) } else { k };
        let hp = (step_range(&mut r), beta_edge(&mut r), beta_edge(&mut r), *r.pick(&[1e-8, 1e-8, 0.0, 1e-3]));
        let input = format!("{} Adam::new({:e}, {:e}, {:e}, {:e})", fmt_in(&p.e, &p.d, &p.x0), hp.0, hp.1, hp.2, hp.3);
        crumb(&format!("{} maxsteps={}", input, k));
        let traj = adam_ref(&p.e, &dr, hp, &p.x0, k);
        for kk in [k, 1 + r.below(k as u64) as usize, 1] {
            *tried += 1;
            let inp = format!("{} maxsteps={}", input, kk);
            crumb(&inp);
            judge("adam", &adam_impl(&p.e, &p.d, hp, &p.x0, kk), &traj, kk, &inp, out);
        }
        let hs = sgd_hp(&mut r, it);
        let input = format!("{} SGD::new({:e}, {:e}, {})", fmt_in(&p.e, &p.d, &p.x0), hs.0, hs.1, hs.2);
        crumb(&format!("{} maxsteps={}", input, k));
        let traj = sgd_ref(&p.e, &dr, hs, &p.x0, k);
        for kk in [k, 1 + r.below(k as u64) as usize, 2.min(k)] {
            *tried += 1;
            let inp = format!("{} maxsteps={}", input, kk);
            crumb(&inp);
            judge("sgd", &sgd_impl(&p.e, &p.d, hs, &p.x0, kk), &traj, kk, &inp, out);
        }
        if out.len() > 40 { return; }
    }
    // start exactly at the minimiser of a separable quadratic (zero gradient: the first update leaves the parameters where they are)
    for it in 0..(if thorough { 40 } else { 8 }) {
        let n = 1 + r.below(8) as usize;
        let cs: Vec<f64> = (0..n).map(|_| (r.uniform(-2.0, 2.0) * 64.0).round() / 64.0).collect();
        let e = sum_chain((0..n).map(|i| E::MulC(b(E::Powi(b(E::SubC(b(E::Par(i)), C::Lit(cs[i]))), 2)), C::Lit(r.uniform(0.2, 3.0)))).collect());
        for k in [1usize, 2, 50] {
            *tried += 2;
            let hp = (step_range(&mut r), 0.9, 0.999, 1e-8);
            let inp = format!("{} Adam::new({:e}, 0.9, 0.999, 1e-8) maxsteps={}", fmt_in(&e, &[], &cs), hp.0, k);
            crumb(&inp);
            judge("adam", &adam_impl(&e, &[], hp, &cs, k), &adam_ref(&e, &[], hp, &cs, k), k, &inp, out);
            let hs = sgd_hp(&mut r, it);
            let inp = format!("{} SGD::new({:e}, {:e}, {}) maxsteps={}", fmt_in(&e, &[], &cs), hs.0, hs.1, hs.2, k);
            crumb(&inp);
            judge("sgd", &sgd_impl(&e, &[], hs, &cs, k), &sgd_ref(&e, &[], hs, &cs, k), k, &inp, out);
        }
    }

    // W6. parameters of tiny magnitude that still change by O(1) relative amounts: c x^2 (minimiser 0) started at 1e-20 .. 1e-200; with
    //     2 c h > 1 the iterate changes sign at every step, with 2 c h < 1 it shrinks by a constant factor: neither is convergence, the
    //     k-th iterate is returned (seeded change C10-10 took new * old <= 0, which also holds when the product underflows, for a zero)
    for it in 0..(if thorough { 240 } else { 60 }) {
        let c = [1.0, 2.0, 3.0, 0.5][it % 4];
        let x0 = [1e-20, -1e-20, 1e-200, -1e-170, 3e-17, 1e-300, 2.5e-162][(it / 4) % 7];
        let h = [0.5, 0.25, 0.4, 0.125][(it / 28) % 4];
        let two = it % 3 == 0;
        let mut terms = vec![E::MulC(b(E::Powi(b(E::Par(0)), 2)), C::Lit(c))];
        if two { terms.push(E::MulC(b(E::Powi(b(E::Par(1)), 2)), C::Lit(1.5))); }
        let e = sum_chain(terms);
        let cs: Vec<f64> = if two { vec![x0, -x0 * 0.75] } else { vec![x0] };
        for k in [1usize, 2, 3, 10] {
            *tried += 2;
            let hs = (h, if it % 5 == 4 { 0.5 } else { 0.0 }, it % 10 == 9);
            let inp = format!("{} SGD::new({:e}, {:e}, {}) maxsteps={}", fmt_in(&e, &[], &cs), hs.0, hs.1, hs.2, k);
            crumb(&inp);
            judge("sgd", &sgd_impl(&e, &[], hs, &cs, k), &sgd_ref(&e, &[], hs, &cs, k), k, &inp, out);
            let hp = (h * 1e-3, 0.9, 0.999, 1e-8);
            let inp = format!("{} Adam::new({:e}, 0.9, 0.999, 1e-8) maxsteps={}", fmt_in(&e, &[], &cs), hp.0, k);
            crumb(&inp);
            judge("adam", &adam_impl(&e, &[], hp, &cs, k), &adam_ref(&e, &[], hp, &cs, k), k, &inp, out);
        }
        if out.len() > 40 { return; }
    }

    // W3. the other public constructors / setters: Adam::default (Kingma-Ba's recommended values), with_stepsize, set_stepsize;
    //     SGD::default, set_stepsize; and W5. determinism of a REUSED optimiser (the tape is owned by it) with another problem in between
    let sgd_def = sgd_default_fields();
    for it in 0..(if thorough { 150 } else { 30 }) {
        let p = problem(&mut r, (it as u64) % 5);
        let q = problem(&mut r, ((it + 2) as u64) % 5);
        let (dr, qr) = (refs(&p.d), refs(&q.d));
        let k = if it % 5 == 0 { 200 } else { 1 + r.below(60) as usize };
        let form = 1 + (it % 4) as u8;
        let hp = match form { 1 => KB, 2 | 3 => (step_range(&mut r), KB.1, KB.2, KB.3), _ => (step_range(&mut r), r.uniform(0.05, 0.99), r.uniform(0.05, 0.9999), 1e-8) };
        let inp = format!("{} {} maxsteps={}", fmt_in(&p.e, &p.d, &p.x0), adam_form_name(form, hp), k);
        *tried += 1;
        crumb(&inp);
        let traj = adam_ref(&p.e, &dr, hp, &p.x0, k);
        judge("adam", &adam_via(form, &p.e, &p.d, hp, &p.x0, k), &traj, k, &inp, out);
        let sform = 1 + (it % 3) as u8;
        let shp = match (sform, sgd_def) { (1, Some(d)) => Some(d), (2, Some(d)) => Some((step_range(&mut r), d.1, d.2)), (3, _) => Some(sgd_hp(&mut r, it)), _ => None };
        if let Some(hs) = shp {
            let inp = format!("{} {} maxsteps={}", fmt_in(&p.e, &p.d, &p.x0), sgd_form_name(sform, hs), k);
            *tried += 1;
            crumb(&inp);
            let traj = sgd_ref(&p.e, &dr, hs, &p.x0, k);
            judge("sgd", &sgd_via(sform, &p.e, &p.d, hs, &p.x0, k), &traj, k, &inp, out);
        }
        // reuse: A, B, A on one optimiser against a fresh one
        let hp = (step_range(&mut r), r.uniform(0.05, 0.99), r.uniform(0.05, 0.9999), 1e-8);
        let inp = format!("{} {} maxsteps={} (reused after another objective)", fmt_in(&p.e, &p.d, &p.x0), adam_form_name(0, hp), k);
        *tried += 1;
        crumb(&inp);
        let o = Adam::new(hp.0, hp.1, hp.2, hp.3);
        let a1 = catch(|| o.optimize(|pp, dd| objective(&p.e, pp, dd), &p.x0, &dr, k).v);
        let _ = catch(|| o.optimize(|pp, dd| objective(&q.e, pp, dd), &q.x0, &qr, 3).v);
        let a2 = catch(|| o.optimize(|pp, dd| objective(&p.e, pp, dd), &p.x0, &dr, k).v);
        let a3 = adam_impl(&p.e, &p.d, hp, &p.x0, k);
        if let (Ok(a), Ok(c), Ok(g)) = (&a1, &a2, &a3) { if !same_bits(a, c) || !same_bits(a, g) { out.push(Finding { class: "adam:nondeterministic".into(), what: "identical calls (fresh and reused optimiser) returned different parameters".into(), input: inp }); } }
        let hs = sgd_hp(&mut r, it);
        let inp = format!("{} {} maxsteps={} (reused after another objective)", fmt_in(&p.e, &p.d, &p.x0), sgd_form_name(0, hs), k);
        *tried += 1;
        crumb(&inp);
        let o = SGD::new(hs.0, hs.1, hs.2);
        let a1 = catch(|| o.optimize(|pp, dd| objective(&p.e, pp, dd), &p.x0, &dr, k).v);
        let _ = catch(|| o.optimize(|pp, dd| objective(&q.e, pp, dd), &q.x0, &qr, 3).v);
        let a2 = catch(|| o.optimize(|pp, dd| objective(&p.e, pp, dd), &p.x0, &dr, k).v);
        let a3 = sgd_impl(&p.e, &p.d, hs, &p.x0, k);
        if let (Ok(a), Ok(c), Ok(g)) = (&a1, &a2, &a3) { if !same_bits(a, c) || !same_bits(a, g) { out.push(Finding { class: "sgd:nondeterministic".into(), what: "identical calls (fresh and reused optimiser) returned different parameters".into(), input: inp }); } }
        if out.len() > 40 { return; }
    }

    // W7. Levenberg-Marquardt over the stated sizes: EVERY model family with 1..5 parameters (the table above has 1..3), exactly 5
    //     and exactly 200 points (and n = p = 5), starts at the origin / with a zero coordinate / far away (|x0| up to 10) / at the
    //     generating parameters, noise levels up to 0.3,
    //     LM::default(), tolerances 0 (run the whole budget) and tau outside [1e-3, 1]; thorough: budgets up to 2000

    let sizes = [5usize, 6, 7, 12, 50, 199, 200];
    for pass in 0..(if thorough { 12 } else { 2 }) {
        for model in 0..13usize {
            for (ni, &n) in sizes.iter().enumerate() {
                let v = pass * 91 + model * 7 + ni;
                let noise = *r.pick(&[0.0, 0.01, 0.1, 0.3]);
                let (e, d, x0, tag) = lm_problem_wide(&mut r, model, n, noise, ((v / 2) % 6) as u8);
                let (hp, via_default) = match v % 6 {
                    0 => ((1e-6, 1e-6, 1e-2), true),
                    1 => ((1e-6, 1e-6, 1e-2), false),
                    2 => ((0.0, 0.0, *r.pick(&[1e-2, 1e-3, 1.0])), false),
                    3 => ((*r.pick(&[1e-6, 1e-9]), *r.pick(&[1e-6, 1e-10]), *r.pick(&[1e-6, 10.0])), false),
                    _ => ((*r.pick(&[1e-6, 1e-9]), *r.pick(&[1e-6, 1e-10]), *r.pick(&[1e-2, 1e-3, 1.0])), false),
                };
                let k = if v % 2 == 0 { if thorough && v % 8 == 0 { 2000 } else { 200 } } else { 1 + r.below(30) as usize };
                // clause (c) on every model linear in the parameters run with the full budget, at every tolerance / tau drawn here
                // (every tolerance is <= 1e-6, the value at which the search above evaluates the clause)
                let ls = lm_is_linear(tag) && k >= 200;
                lm_judge(&e, &d, &x0, hp, k, via_default, ls, tried, out);
                if v % 9 == 0 {
                    // determinism: a fresh optimiser twice, and one optimiser reused
                    *tried += 1;
                    let dr = refs(&d);
                    let o = LM::new(hp.0, hp.1, hp.2);
                    let run = |o: &LM| catch(|| { let (pp, c) = o.optimize(|pp, dd| objective(&e, pp, dd), &x0, &dr, k); let mut v = pp.v; v.extend_from_slice(&c.data); v });
                    let (a1, a2, a3) = (run(&o), run(&o), lm_impl(&e, &d, hp, &x0, k));
                    if let (Ok(a), Ok(c), Ok(g)) = (&a1, &a2, &a3) { if !same_bits(a, c) || !same_bits(a, g) {
                        out.push(Finding { class: "lm:nondeterministic".into(), what: "identical calls (fresh and reused optimiser) returned different results".into(), input: format!("model={} xs={} ys={} start={} LM::new({:e}, {:e}, {:e}) maxsteps={}", etm(&e).to_string(), json_floats(&d[0]), json_floats(&d[1]), json_floats(&x0), hp.0, hp.1, hp.2, k) }); } }
                }
                if out.len() > 60 { return; }
            }
        }
    }

    // W8. polynomial fits (3..5 parameters: columns x^2 .. x^4 make diag(J^T J) large), the full budget, clause (c) on every run:
    //     (i) started at the generating parameters (a good start: the least-squares solution is a small correction away),
    //     (ii) poor starts as above with tau = 1, (iii) poor-start problems found by this audit on which the original code
    //     returned its start as "converged" (fixed sub-seeds, independent of the run's seed)
    for it in 0..(if thorough { 600 } else { 40 }) {
        let model = [1usize, 6, 7, 0, 5][it % 5];
        let n = [50usize, 200, 12, 120][(it / 5) % 4];
        let noise = *r.pick(&[0.01, 0.1, 0.3]);
        let (e, d, x0, _) = lm_problem_wide(&mut r, model, n, noise, 5);
        let hp = (*r.pick(&[1e-6, 1e-9]), *r.pick(&[1e-6, 1e-10]), if it % 2 == 0 { 1.0 } else { 1e-2 });
        lm_judge(&e, &d, &x0, hp, 200, false, true, tried, out);
        if out.len() > 60 { return; }
    }
    // W9. models linear in the parameters started FAR from the solution (|x0| ~ 500 and ~ 1e6, the solution is O(1)): the stopping
    //     tests are relative to the CURRENT iterate, so the least-squares solution is still reached (seeded change C10-11 froze the
    //     step tolerance at the start point)
    for it in 0..(if thorough { 400 } else { 48 }) {
        let model = [1usize, 6, 7, 0, 5][it % 5];
        let n = [50usize, 200, 12, 120][(it / 5) % 4];
        let noise = *r.pick(&[0.01, 0.1, 0.3]);
        let (e, d, x0, _) = lm_problem_wide(&mut r, model, n, noise, if it % 2 == 0 { 6 } else { 7 });
        let hp = (*r.pick(&[1e-6, 1e-9]), *r.pick(&[1e-6, 1e-10]), if it % 4 < 2 { 1.0 } else { 1e-2 });
        lm_judge(&e, &d, &x0, hp, 200, false, true, tried, out);
        if out.len() > 60 { return; }
    }
    let found: [u64; 4] = [180, 183, 208, 432];
    let extra: Vec<u64> = (0..(if thorough { 3000 } else { 60 })).map(|_| r.next()).collect();
    for &sub in found.iter().chain(extra.iter()) {
        let (e, d, x0, hp) = lm_poly_case(sub);
        lm_judge(&e, &d, &x0, hp, 200, false, true, tried, out);
        if out.len() > 60 { return; }
    }
}

pub fn oracle(tier: &str, seed: u64) -> (u64, Vec<Finding>) {
    let mut r = Rng::new(seed ^ 0x0C10);
    let mut out = vec![]; let mut tried = 0u64;
    let thorough = tier == "thorough";
    let _q = Quiet::new();
    let fmt_in = |e: &E, d: &[Vec<f64>], x0: &[f64]| format!("objective={} data={} start={}", etm(e).to_string(), d.iter().map(|x| json_floats(x)).collect::<Vec<_>>().join(","), json_floats(x0));

    // D22 family first: f = c x^2 with step * 2c = 2 maps x to -x
    for (c, step, x) in [(2.0, 0.5, 1.0), (2.0, 0.5, -3.0), (4.0, 0.25, 0.75), (1.0, 1.0, 2.5)] {
        let e = E::MulC(b(E::Powi(b(E::Par(0)), 2)), C::Lit(c));
        for nest in [false, true] { for k in [2usize, 3, 4, 10] {
            tried += 1;
            let input = format!("{} SGD::new({:e}, 0, {}) maxsteps={}", fmt_in(&e, &[], &[x]), step, nest, k);
            crumb(&input);
            let traj = sgd_ref(&e, &[], (step, 0.0, nest), &[x], k);
            let got = sgd_impl(&e, &[], (step, 0.0, nest), &[x], k);
            judge("sgd", &got, &traj, k, &input, &mut out);
        } }
    }
    // Adam: one coordinate flips sign exactly when alpha * mhat / (sqrt(vhat) + eps) = 2 theta: at t = 1, mhat/sqrt(vhat) = sign(g),
    // so theta_0 = alpha / 2 with eps = 0 and a gradient of the sign of theta_0 gives theta_1 = -theta_0
    for a in [0.5, 0.125, 1e-3] {
        let e = E::Powi(b(E::Par(0)), 2);
        for k in [2usize, 3, 5] {
            tried += 1;
            let input = format!("{} Adam::new({:e}, 0.9, 0.999, 0) maxsteps={}", fmt_in(&e, &[], &[a / 2.0]), a, k);
            crumb(&input);
            let traj = adam_ref(&e, &[], (a, 0.9, 0.999, 0.0), &[a / 2.0], k);
            let got = adam_impl(&e, &[], (a, 0.9, 0.999, 0.0), &[a / 2.0], k);
            judge("adam", &got, &traj, k, &input, &mut out);
        }
    }

    let iters = if thorough { 1500 } else { 160 };
    let kmax = if thorough { 2000 } else { 200 };
    for it in 0..iters {
        let p = problem(&mut r, (it as u64) % 5);
        let dr = refs(&p.d);
        // the tape's gradient against forward-mode differentiation (the recurrences below take the tape's gradient as grad f)
        if it % 2 == 0 {
            tried += 1;
            crumb(&format!("{} (gradient on the tape)", fmt_in(&p.e, &p.d, &p.x0)));
            let g = catch(|| tape_grad(&p.e, &dr, &p.x0)); let (_, gd) = dual(&p.e, &p.x0, &dr);
            if let Ok(g) = g {
                let bad = g.iter().zip(&gd).any(|(a, c)| a.is_finite() && c.is_finite() && (a - c).abs() > 1e-6 * (1.0 + a.abs().max(c.abs())));
                if bad { out.push(Finding { class: if has_cdiv(&p.e) { "reverse:gradient-of-const-over-var".into() } else { "reverse:gradient-wrong".into() },
                    what: format!("reverse's gradient {:?} differs from forward-mode differentiation {:?}", g, gd), input: fmt_in(&p.e, &p.d, &p.x0) }); }
            }
        }
        let k = if it % 4 == 0 { kmax } else { 1 + r.below(60) as usize };
        let k = if uses_libm(&p.e) { k.min(200) } else { k };
        let step = *r.pick(&[1e-4, 1e-3, 0.01, 0.1, 0.5]); let b1 = r.uniform(0.05, 0.99); let b2 = r.uniform(0.05, 0.9999);
        let hp = (step, b1, b2, *r.pick(&[1e-8, 1e-8, 0.0, 1e-3]));
        let input = format!("{} Adam::new({:e}, {:e}, {:e}, {:e})", fmt_in(&p.e, &p.d, &p.x0), hp.0, hp.1, hp.2, hp.3);
        crumb(&format!("{} maxsteps={}", input, k));
        let traj = adam_ref(&p.e, &dr, hp, &p.x0, k);
        for kk in [k, 1 + r.below(k as u64) as usize, 1] {
            tried += 1;
            let inp = format!("{} maxsteps={}", input, kk);
            crumb(&inp);
            let got = adam_impl(&p.e, &p.d, hp, &p.x0, kk);
            judge("adam", &got, &traj, kk, &inp, &mut out);
            if kk == k { let again = adam_impl(&p.e, &p.d, hp, &p.x0, kk); if let (Ok(a), Ok(c)) = (&got, &again) { if !same_bits(a, c) { out.push(Finding { class: "adam:nondeterministic".into(), what: "two identical calls returned different parameters".into(), input: input.clone() }); } } }
        }
        let (mom, nest) = match it % 3 { 0 => (0.0, false), 1 => (r.uniform(0.0, 0.99), false), _ => (r.uniform(0.0, 0.99), true) };
        let hs = (*r.pick(&[1e-4, 1e-3, 0.01, 0.05, 0.5]), mom, nest);
        let input = format!("{} SGD::new({:e}, {:e}, {})", fmt_in(&p.e, &p.d, &p.x0), hs.0, hs.1, hs.2);
        crumb(&format!("{} maxsteps={}", input, k));
        let traj = sgd_ref(&p.e, &dr, hs, &p.x0, k);
        for kk in [k, 1 + r.below(k as u64) as usize, 2] {
            let kk = kk.min(k); tried += 1;
            let inp = format!("{} maxsteps={}", input, kk);
            crumb(&inp);
            let got = sgd_impl(&p.e, &p.d, hs, &p.x0, kk);
            judge("sgd", &got, &traj, kk, &inp, &mut out);
            if kk == k {
                // determinism, also across a reused optimiser (the tape is owned by the optimiser)
                let o = SGD::new(hs.0, hs.1, hs.2);
                let a1 = catch(|| o.optimize(|pp, dd| objective(&p.e, pp, dd), &p.x0, &dr, kk).v);
                let a2 = catch(|| o.optimize(|pp, dd| objective(&p.e, pp, dd), &p.x0, &dr, kk).v);
                if let (Ok(a), Ok(c), Ok(g)) = (&a1, &a2, &got) { if !same_bits(a, c) || !same_bits(a, g) { out.push(Finding { class: "sgd:nondeterministic".into(), what: "identical calls (fresh and reused optimiser) returned different parameters".into(), input: input.clone() }); } }
            }
        }
        if out.len() > 40 { break; }
    }

    // Levenberg-Marquardt
    let nlm = if thorough { 1200 } else { 150 };
    for it in 0..nlm {
        let (e, d, x0, tag) = lm_problem(&mut r, if it % 6 == 0 { 200 } else { 40 });
        let hp = if it % 3 == 0 { (1e-6, 1e-6, 1e-2) } else { (*r.pick(&[1e-6, 1e-9]), *r.pick(&[1e-6, 1e-10]), *r.pick(&[1e-2, 1e-3, 1.0])) };
        let k = if it % 2 == 0 { 200 } else { 1 + r.below(30) as usize };
        lm_judge(&e, &d, &x0, hp, k, false, lm_is_linear(tag) && k == 200 && it % 3 == 0, &mut tried, &mut out);
        if out.len() > 60 { break; }
    }
    oracle_wide(thorough, seed, &mut tried, &mut out);
    (tried, out)
}
