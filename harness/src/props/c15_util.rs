//! C15 helper: LLVM merges `x.sin()` and `x.cos()` of the same argument into one `sincos` call, which
//! `harness/src/libm.rs` does not interpose (so the recorded libm table stayed empty for the rotation
//! constructors).  This interposes `sincos`: the value returned to the library is glibc's own `sincos`;
//! the table entries are recorded by calling the interposed `sin` / `cos` wrappers.  glibc computes the
//! three through the same kernels; should they ever differ in a bit, the table holds the `sin`/`cos`
//! values while the implementation used the `sincos` ones, and the correspondence check reports it.
use std::os::raw::{c_char, c_int, c_void};

extern "C" {
    fn dlsym(handle: *mut c_void, symbol: *const c_char) -> *mut c_void;
    fn dlopen(f: *const c_char, flags: c_int) -> *mut c_void;
}

type SinCos = extern "C" fn(f64, *mut f64, *mut f64);

#[no_mangle]
pub unsafe extern "C" fn sincos(x: f64, s: *mut f64, c: *mut f64) {
    static mut F: Option<SinCos> = None;
    if F.is_none() {
        let h = dlopen(b"libm.so.6\0".as_ptr() as *const c_char, 2);
        assert!(!h.is_null(), "cannot dlopen libm.so.6");
        let p = dlsym(h, b"sincos\0".as_ptr() as *const c_char);
        assert!(!p.is_null());
        F = Some(std::mem::transmute::<*mut c_void, SinCos>(p));
    }
    (F.unwrap())(x, s, c);
    // record (Sin, x, sin x) and (Cos, x, cos x) through the interposed wrappers
    // (black_box: LLVM knows `sin`/`cos` as pure library functions and would drop an unused call)
    std::hint::black_box(crate::libm::sin(std::hint::black_box(x)));
    std::hint::black_box(crate::libm::cos(std::hint::black_box(x)));
}
