//! Verification harness for al-jshen/compute: runs the implementation on generated cases and
//! writes them (with the implementation's outcome) as Coq terms for the in-kernel correspondence
//! check; runs the failure-search oracles.
mod libm;
mod props;
mod util;

fn arg(args: &[String], name: &str, default: &str) -> String {
    args.iter().position(|a| a == name).and_then(|i| args.get(i + 1)).cloned().unwrap_or_else(|| default.to_string())
}

fn main() {
    let args: Vec<String> = std::env::args().collect();
    if args.len() < 3 { eprintln!("usage: harness gen|oracle <PROP> [--tier quick|thorough] [--seed N] [--out DIR|FILE]"); std::process::exit(2); }
    let (cmd, prop) = (args[1].as_str(), args[2].as_str());
    let tier = arg(&args, "--tier", "quick");
    let seed: u64 = arg(&args, "--seed", "1").parse().unwrap_or(1);
    let out = arg(&args, "--out", ".");
    util::quiet_panics();
    match cmd {
        "gen" => match prop {
            "C05" => props::c05::gen(&tier, seed, &out),
            _ => { eprintln!("unknown property {}", prop); std::process::exit(2); }
        },
        "oracle" => {
            let (tried, fs) = match prop {
                "C05" => props::c05::oracle(&tier, seed),
                _ => { eprintln!("unknown property {}", prop); std::process::exit(2); }
            };
            util::write_findings(&out, prop, tried, &fs);
        }
        _ => { eprintln!("unknown command {}", cmd); std::process::exit(2); }
    }
}
