//! Verification harness for al-jshen/compute: runs the implementation on generated cases and
//! writes them (with the implementation's outcome) as Coq terms for the in-kernel correspondence
//! check; runs the failure-search oracles.
mod libm;
mod props;
mod util;

fn arg(args: &[String], name: &str, default: &str) -> String {
    args.iter().position(|a| a == name).and_then(|i| args.get(i + 1)).cloned().unwrap_or_else(|| default.to_string())
}

fn main() {
    let args: Vec<String> = std::env::args().collect();
    if args.len() < 3 { eprintln!("usage: harness gen|oracle <PROP> [--tier quick|thorough] [--seed N] [--out DIR|FILE]"); std::process::exit(2); }
    let (cmd, prop) = (args[1].as_str(), args[2].as_str());
    let tier = arg(&args, "--tier", "quick");
    let seed: u64 = arg(&args, "--seed", "1").parse().unwrap_or(1);
    let out = arg(&args, "--out", ".");
    util::quiet_panics();
    match cmd {
        "gen" => match prop {
            #[cfg(feature = "c01")]
            "C01" => props::c01::gen(&tier, seed, &out),
            #[cfg(feature = "c02")]
            "C02" => props::c02::gen(&tier, seed, &out),
            #[cfg(feature = "c03")]
            "C03" => props::c03::gen(&tier, seed, &out),
            #[cfg(feature = "c04")]
            "C04" => props::c04::gen(&tier, seed, &out),
            #[cfg(feature = "c05")]
            "C05" => props::c05::gen(&tier, seed, &out),
            #[cfg(feature = "c06")]
            "C06" => props::c06::gen(&tier, seed, &out),
            #[cfg(feature = "c07")]
            "C07" => props::c07::gen(&tier, seed, &out),
            #[cfg(feature = "c08")]
            "C08" => props::c08::gen(&tier, seed, &out),
            #[cfg(feature = "c09")]
            "C09" => props::c09::gen(&tier, seed, &out),
            #[cfg(feature = "c10")]
            "C10" => props::c10::gen(&tier, seed, &out),
            #[cfg(feature = "c11")]
            "C11" => props::c11::gen(&tier, seed, &out),
            #[cfg(feature = "c12")]
            "C12" => props::c12::gen(&tier, seed, &out),
            #[cfg(feature = "c13")]
            "C13" => props::c13::gen(&tier, seed, &out),
            #[cfg(feature = "c14")]
            "C14" => props::c14::gen(&tier, seed, &out),
            #[cfg(feature = "c15")]
            "C15" => props::c15::gen(&tier, seed, &out),
            #[cfg(feature = "c16")]
            "C16" => props::c16::gen(&tier, seed, &out),
            #[cfg(feature = "c17")]
            "C17" => props::c17::gen(&tier, seed, &out),
            #[cfg(feature = "c18")]
            "C18" => props::c18::gen(&tier, seed, &out),
            #[cfg(feature = "c19")]
            "C19" => props::c19::gen(&tier, seed, &out),
            #[cfg(feature = "c20")]
            "C20" => props::c20::gen(&tier, seed, &out),
            _ => { eprintln!("unknown property {}", prop); std::process::exit(2); }
        },
        "oracle" => {
            let (tried, fs) = match prop {
                #[cfg(feature = "c01")]
                "C01" => props::c01::oracle(&tier, seed),
                #[cfg(feature = "c02")]
                "C02" => props::c02::oracle(&tier, seed),
                #[cfg(feature = "c03")]
                "C03" => props::c03::oracle(&tier, seed),
                #[cfg(feature = "c04")]
                "C04" => props::c04::oracle(&tier, seed),
                #[cfg(feature = "c05")]
                "C05" => props::c05::oracle(&tier, seed),
                #[cfg(feature = "c06")]
                "C06" => props::c06::oracle(&tier, seed),
                #[cfg(feature = "c07")]
                "C07" => props::c07::oracle(&tier, seed),
                #[cfg(feature = "c08")]
                "C08" => props::c08::oracle(&tier, seed),
                #[cfg(feature = "c09")]
                "C09" => props::c09::oracle(&tier, seed),
                #[cfg(feature = "c10")]
                "C10" => props::c10::oracle(&tier, seed),
                #[cfg(feature = "c11")]
                "C11" => props::c11::oracle(&tier, seed),
                #[cfg(feature = "c12")]
                "C12" => props::c12::oracle(&tier, seed),
                #[cfg(feature = "c13")]
                "C13" => props::c13::oracle(&tier, seed),
                #[cfg(feature = "c14")]
                "C14" => props::c14::oracle(&tier, seed),
                #[cfg(feature = "c15")]
                "C15" => props::c15::oracle(&tier, seed),
                #[cfg(feature = "c16")]
                "C16" => props::c16::oracle(&tier, seed),
                #[cfg(feature = "c17")]
                "C17" => props::c17::oracle(&tier, seed),
                #[cfg(feature = "c18")]
                "C18" => props::c18::oracle(&tier, seed),
                #[cfg(feature = "c19")]
                "C19" => props::c19::oracle(&tier, seed),
                #[cfg(feature = "c20")]
                "C20" => props::c20::oracle(&tier, seed),
                _ => { eprintln!("unknown property {}", prop); std::process::exit(2); }
            };
            util::write_findings(&out, prop, tried, &fs);
        }
        _ => { eprintln!("unknown command {}", cmd); std::process::exit(2); }
    }
}
