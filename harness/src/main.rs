//! Verification harness for al-jshen/compute: runs the implementation on generated cases and
//! writes them (with the implementation's outcome) as Coq terms for the in-kernel correspondence
//! check; runs the failure-search oracles.
mod libm;
mod props;
mod util;

fn arg(args: &[String], name: &str, default: &str) -> String {
    args.iter().position(|a| a == name).and_then(|i| args.get(i + 1)).cloned().unwrap_or_else(|| default.to_string())
}

fn main() {
    let args: Vec<String> = std::env::args().collect();
    if args.len() < 3 { eprintln!("usage: harness gen|oracle <PROP> [--tier quick|thorough] [--seed N] [--out DIR|FILE]"); std::process::exit(2); }
    let (cmd, prop) = (args[1].as_str(), args[2].as_str());
    let tier = arg(&args, "--tier", "quick");
    let seed: u64 = arg(&args, "--seed", "1").parse().unwrap_or(1);
    let out = arg(&args, "--out", ".");
    util::quiet_panics();
    match cmd {
        "gen" => match prop {
            "C01" => props::c01::gen(&tier, seed, &out),
            "C02" => props::c02::gen(&tier, seed, &out),
            "C03" => props::c03::gen(&tier, seed, &out),
            "C04" => props::c04::gen(&tier, seed, &out),
            "C05" => props::c05::gen(&tier, seed, &out),
            "C06" => props::c06::gen(&tier, seed, &out),
            "C07" => props::c07::gen(&tier, seed, &out),
            "C08" => props::c08::gen(&tier, seed, &out),
            "C09" => props::c09::gen(&tier, seed, &out),
            "C10" => props::c10::gen(&tier, seed, &out),
            "C11" => props::c11::gen(&tier, seed, &out),
            "C12" => props::c12::gen(&tier, seed, &out),
            "C13" => props::c13::gen(&tier, seed, &out),
            "C14" => props::c14::gen(&tier, seed, &out),
            "C15" => props::c15::gen(&tier, seed, &out),
            "C16" => props::c16::gen(&tier, seed, &out),
            "C17" => props::c17::gen(&tier, seed, &out),
            "C18" => props::c18::gen(&tier, seed, &out),
            "C19" => props::c19::gen(&tier, seed, &out),
            "C20" => props::c20::gen(&tier, seed, &out),
            _ => { eprintln!("unknown property {}", prop); std::process::exit(2); }
        },
        "oracle" => {
            let (tried, fs) = match prop {
                "C01" => props::c01::oracle(&tier, seed),
                "C02" => props::c02::oracle(&tier, seed),
                "C03" => props::c03::oracle(&tier, seed),
                "C04" => props::c04::oracle(&tier, seed),
                "C05" => props::c05::oracle(&tier, seed),
                "C06" => props::c06::oracle(&tier, seed),
                "C07" => props::c07::oracle(&tier, seed),
                "C08" => props::c08::oracle(&tier, seed),
                "C09" => props::c09::oracle(&tier, seed),
                "C10" => props::c10::oracle(&tier, seed),
                "C11" => props::c11::oracle(&tier, seed),
                "C12" => props::c12::oracle(&tier, seed),
                "C13" => props::c13::oracle(&tier, seed),
                "C14" => props::c14::oracle(&tier, seed),
                "C15" => props::c15::oracle(&tier, seed),
                "C16" => props::c16::oracle(&tier, seed),
                "C17" => props::c17::oracle(&tier, seed),
                "C18" => props::c18::oracle(&tier, seed),
                "C19" => props::c19::oracle(&tier, seed),
                "C20" => props::c20::oracle(&tier, seed),
                _ => { eprintln!("unknown property {}", prop); std::process::exit(2); }
            };
            util::write_findings(&out, prop, tried, &fs);
        }
        _ => { eprintln!("unknown command {}", cmd); std::process::exit(2); }
    }
}
