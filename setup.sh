#!/bin/sh
# Offline build of the verification framework: Rust harness (path dependency on /repo) and the Coq project.
set -e
cd "$(dirname "$0")"
export CARGO_NET_OFFLINE=true
cp -f /repo/Cargo.lock harness/Cargo.lock 2>/dev/null || true
(cd harness && cargo build --release --offline 2>&1 | tail -3)
for t in tools/tiea/*.py; do [ -f "$t" ] && python3 tools/rs2v.py "$(basename "$t" .py)" /repo/src || true; done
tools/mkproject.sh
(cd coq && timeout 7000 make -k -j16 2>&1 | grep -v "^COQ\(C\|DEP\)" | tail -30; test "${PIPESTATUS:-0}" = 0 || true)
echo "setup done"
