#!/usr/bin/env python3
"""Tie A: regenerate Coq sources from /repo/src.  Each target <what> is a module tools/tiea/<what>.py with
   `generate(src_dir) -> str` (the text of coq/theories/Generated/<what>.v).  A translator must raise an
   exception (with the source span) when it meets Rust outside the subset it handles; it never guesses."""
import importlib.util, os, sys

def generate(what, src_dir, out_dir):
    path = os.path.join(os.path.dirname(os.path.abspath(__file__)), "tiea", what + ".py")
    spec = importlib.util.spec_from_file_location("tiea_" + what, path)
    mod = importlib.util.module_from_spec(spec); spec.loader.exec_module(mod)
    text = mod.generate(src_dir)
    os.makedirs(out_dir, exist_ok=True)
    out = os.path.join(out_dir, what + ".v")
    old = open(out).read() if os.path.exists(out) else None
    if old != text:
        open(out, "w").write(text)
        return True
    return False

if __name__ == "__main__":
    what = sys.argv[1]
    src = sys.argv[2] if len(sys.argv) > 2 else "/repo/src"
    out = sys.argv[3] if len(sys.argv) > 3 else os.path.join(os.path.dirname(os.path.abspath(__file__)), "..", "coq", "theories", "Generated")
    print("changed" if generate(what, src, out) else "unchanged")
