#!/bin/sh
# tools/try_seed.sh <PROP> <patch.diff> [tier]: apply a seeded change to /repo, run the property's check, undo it.
P="$1"; PATCH="$(readlink -f "$2")"; TIER="${3:-quick}"
git -C /repo diff --quiet || { echo "/repo is dirty"; exit 2; }
git -C /repo apply "$PATCH" || { echo "patch does not apply"; exit 2; }
cd /verif && cp -f evidence/$P.json /tmp/try_seed.evidence.$P 2>/dev/null
./check "$P" --tier "$TIER" > /tmp/try_seed.out 2>&1; rc=$?
cp -f /tmp/try_seed.evidence.$P evidence/$P.json 2>/dev/null   # the committed evidence must come from the unchanged tree
git -C /repo checkout -- . && git -C /repo clean -fdq -- src examples tests 2>/dev/null
# the Tie-A files were regenerated from the patched tree: regenerate them from the restored one
for t in tools/tiea/*.py; do python3 tools/rs2v.py "$(basename "$t" .py)" /repo/src >/dev/null 2>&1 || true; done
echo "exit=$rc"; grep -E "VIOLATION|KNOWN|obligations" /tmp/try_seed.out
