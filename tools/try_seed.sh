#!/bin/sh
# tools/try_seed.sh <PROP> <patch.diff> [tier]: apply a seeded change to the repository, run the property's check, undo it.
# Repository and framework default to /repo and /verif; a parallel worker sets VERIF_REPO / VERIF_ROOT to its own worktree / copy.
P="$1"; PATCH="$(readlink -f "$2")"; TIER="${3:-quick}"
R="${VERIF_REPO:-/repo}"; V="${VERIF_ROOT:-/verif}"
git -C "$R" diff --quiet || { echo "$R is dirty"; exit 2; }
git -C "$R" apply "$PATCH" || { echo "patch does not apply"; exit 2; }
cd "$V" && cp -f evidence/$P.json /tmp/try_seed.evidence.$P.$$ 2>/dev/null
./check "$P" --tier "$TIER" > /tmp/try_seed.out.$$ 2>&1; rc=$?
cp -f /tmp/try_seed.evidence.$P.$$ evidence/$P.json 2>/dev/null; rm -f /tmp/try_seed.evidence.$P.$$   # the committed evidence must come from the unchanged tree
git -C "$R" checkout -- . && git -C "$R" clean -fdq -- src examples tests 2>/dev/null
# the Tie-A files were regenerated from the patched tree: regenerate them from the restored one
for t in tools/tiea/*.py; do python3 tools/rs2v.py "$(basename "$t" .py)" "$R/src" >/dev/null 2>&1 || true; done
cp -f /tmp/try_seed.out.$$ /tmp/try_seed.out 2>/dev/null
echo "exit=$rc"; grep -E "VIOLATION|KNOWN|obligations" /tmp/try_seed.out.$$; rm -f /tmp/try_seed.out.$$
