#!/bin/sh
# tools/try_seed.sh <PROP> <patch.diff> [tier]: apply a seeded change to /repo, run the property's check, undo it.
P="$1"; PATCH="$(readlink -f "$2")"; TIER="${3:-quick}"
git -C /repo diff --quiet || { echo "/repo is dirty"; exit 2; }
git -C /repo apply "$PATCH" || { echo "patch does not apply"; exit 2; }
cd /verif && ./check "$P" --tier "$TIER" > /tmp/try_seed.out 2>&1; rc=$?
git -C /repo checkout -- . && git -C /repo clean -fdq -- src examples tests 2>/dev/null
echo "exit=$rc"; grep -E "VIOLATION|KNOWN|obligations" /tmp/try_seed.out
