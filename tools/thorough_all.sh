#!/bin/sh
# tools/thorough_all.sh: (for `vp run --with-repo`) build the framework in this snapshot against the /repo snapshot and run every thorough check.
# Results are NOT evidence (see TOOLS.md); they tell whether the thorough tier is green and how long it takes.
set -x
R="${VP_RUN_REPO:-/repo}"
sed -i "s#path = \"/repo\"#path = \"$R\"#" harness/Cargo.toml
export VERIF_REPO="$R"
sed -i "s#/repo/Cargo.lock#$R/Cargo.lock#; s#/repo/src#$R/src#" setup.sh
./setup.sh
for p in ${PROPS:-C01 C02 C03 C04 C05 C06 C07 C08 C09 C10 C11 C12 C13 C14 C15 C16 C17 C18 C19 C20}; do
  /usr/bin/time -f "$p wall %e s" ./check $p --tier thorough 2>&1 | grep -v "^KNOWN" | tail -4
done
