#!/bin/sh
# tools/mkwork.sh <name>: private workspace for a helper: /tmp/w/<name>/verif (copy of /verif incl. build
# outputs) and /tmp/w/<name>/repo (git worktree of /repo on branch w-<name>); the copy's harness depends on
# that worktree.  Remove with: git -C /repo worktree remove --force /tmp/w/<name>/repo; rm -rf /tmp/w/<name>
set -e
N="$1"; W=/tmp/w/$N
mkdir -p "$W"
git -C /repo worktree add -q -B "w-$N" "$W/repo" HEAD
rsync -a --exclude .git /verif/ "$W/verif/"
sed -i "s#path = \"/repo\"#path = \"$W/repo\"#" "$W/verif/harness/Cargo.toml"
echo "export VERIF_REPO=$W/repo" > "$W/env.sh"
echo "$W ready"
