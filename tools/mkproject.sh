#!/bin/sh
# Regenerate coq/_CoqProject (every .v under theories/) and the Makefile when the file list changed.
cd "$(dirname "$0")/../coq" || exit 1
{
  echo "-Q theories Compute"
  echo "-arg -w -arg -notation-overridden,-deprecated-hint-without-locality,-deprecated-instance-without-locality,-deprecated-hint-rewrite-without-locality,-ambiguous-paths"
  find theories -name '*.v' | LC_ALL=C sort
} > _CoqProject.new
if ! cmp -s _CoqProject.new _CoqProject || [ ! -f Makefile ]; then
  mv _CoqProject.new _CoqProject
  coq_makefile -f _CoqProject -o Makefile > /dev/null
else
  rm -f _CoqProject.new
fi
