#!/bin/sh
# tools/confirm_seed.sh <scratch-worktree> <seed-dir>: confirm a seeded change: applies, builds, existing tests pass,
# demo fails with the change and passes without. Prints one summary line; leaves the worktree clean.
WT="$1"; D="$2"
cd "$WT" || exit 2
git checkout -q -- . ; git clean -fdq
git apply "$D/patch.diff" || { echo "CONFIRM $D: patch does not apply"; exit 1; }
mkdir -p examples; cp "$D/demo.rs" examples/seed_demo.rs
T=$(cargo test --offline --lib 2>&1 | grep -E "^test result" | head -1)
DT=$(cargo test --offline --doc 2>&1 | grep -E "^test result" | tail -1)
cargo run --offline --example seed_demo >/tmp/seed_demo_with.out 2>&1; W=$?
git checkout -q -- . ; git clean -fdq; mkdir -p examples; cp "$D/demo.rs" examples/seed_demo.rs
cargo run --offline --example seed_demo >/tmp/seed_demo_without.out 2>&1; WO=$?
git checkout -q -- . ; git clean -fdq
echo "CONFIRM $D: tests[$T | doc: $DT] demo_with_change_exit=$W demo_without_exit=$WO"
