#!/usr/bin/env python3
"""Tie A expression translator: pure scalar Rust function bodies -> Gallina terms over `Ops T` (Base/Ops.v).

It parses a small subset of Rust and RAISES `Unsupported` (with file:line:col and the offending text) on
anything else; it never guesses.  The subset:

  items   `struct S { f: ty, .. }`, `const N: f64 = expr;`, `fn f(params) -> ty { block }` at module level, inside
          `impl [Trait for] S { .. }` and inside `macro_rules! m { (..) => { impl .. { fn .. } } }`
  block   `let x [: ty] = expr;` (no `mut`, no patterns) | `assert!(cond [, msg..]);` | `panic!(..)[;]`
          | `if cond { block } [else if .. | else { block }]` | `return [expr];` | tail expression
          | `let u = loop { let v = DRAW; if cond { break v; } };` with DRAW one of the target's random draws (a rejection
            loop: the accepted draw u becomes a parameter, cond a separate definition `<fn>_accept`)
          | `let mut acc = init; for (idx, val) in ARRAY.iter().enumerate() { acc += expr; }` with ARRAY a constant array
            of the target's table (a left fold with the running index; acc only read afterwards)
          (a branch of a statement-`if` either leaves the function (return / panic) or binds nothing)
  expr    f64 and integer literals (`2.`, `1e-3`, `0.5`, `2_f64`, `1`, `1u64`), variables, `self.f`,
          unary `-` `!` `&` `*` (references are transparent), `+ - * /` (f64 and integers), comparisons, `&& || & |`
          on bool, `e as f64|usize|u64|u32|i64|i32` (integer -> integer is the identity on Z: wrap-around is NOT
          modelled; integer -> f64 is `ofZ`), `(a ..= b).contains(&x)`, `(a ..= b).map(|i| e).sum()`,
          value `if`, `{ block }`, `Self { f, .. }` / `S { f, .. }` as the tail of a constructor (tuple of the
          numeric fields), calls of crate functions named in the target's table, `self.m()` for a translated
          argument-less method of the same type (inlined), constants `PI`, `std::f64::consts::PI`, `f64::EPSILON`,
          module `const`s (inlined, or mapped by the target's table), `f64::INFINITY` / `f64::NAN` only as a
          whole result in `moment` mode
  methods `.exp() .ln() .sqrt() .abs() .powi(k) .powf(y) .ln_1p() .exp_m1() .sin() .cos() .floor() .max(y) .min(y)`
          on f64; `.min(y) .max(y)` on integers

Rendering (same operation order as the source, fully parenthesised prefix applications):
  a + b -> add O a b, ... ; -a -> neg O a ; a < b -> ltb O a b ; a > b -> ltb O b a ; a <= b -> leb O a b ;
  a >= b -> leb O b a ; a == b -> eqb O a b ; libm through f1 / f2 ; x.powi(k) -> powi O x k (the derived
  square-and-multiply) ; x.max(y) -> fmax O x y ; integers live in Z (Z.add, Z.ltb, Z.min ..).
  f64 literals: 0 -> zero O, 1 -> one O, 2 -> two O, another integer n -> ofZ O n, a short decimal p/q (reduced,
  p and q below 2^53: the quotient of the two exactly converted integers rounds to the literal's binary64) ->
  ofQ O (p # q), a long decimal -> ofLit O (exact rational, binary64 as parsed).
  `(a ..= b)` -> rs_range a b ; `.map(|i| e).sum()` -> rs_iter_sum O (map (fun i : Z => e) ..)  (Iterator::sum::<f64>()
  folds from -0.0).  A panic is `None`, a normal result `Some ..` (functions without assert!/panic! are total:
  no option).  `moment` mode renders the result as Fin e | PInf (f64::INFINITY) | Undef (f64::NAN).  `guard` mode renders only
  the function's own panics: true iff no assert!/panic! of the body fires (the value computed afterwards is not
  translated; used for constructors whose struct literal builds cached sub-samplers).
Documented rewriting rule (follows what rustc emits, as the hand models record):
  R1  `2_f64.powf(e)` / `2f64.powf(e)` / `(2.0_f64).powf(e)`  ->  f1 O Exp2 e      (rustc/LLVM turns pow(2, x) into exp2(x))
"""
import os, re, sys
from fractions import Fraction


class Unsupported(Exception):
    pass


# ----------------------------------------------------------------------------------------------- lexer
def blank_comments(src):
    """comments replaced by blanks (same offsets, newlines kept)"""
    out, i, n = [], 0, len(src)
    while i < n:
        if src.startswith("//", i):
            j = src.find("\n", i)
            j = n if j < 0 else j
            out.append(" " * (j - i)); i = j
        elif src.startswith("/*", i):
            j = src.find("*/", i)
            if j < 0: raise Unsupported("unterminated block comment")
            out.append(re.sub(r"[^\n]", " ", src[i:j + 2])); i = j + 2
        elif src[i] == '"':
            m = re.compile(r'"(?:[^"\\]|\\.)*"', re.S).match(src, i)
            if not m: raise Unsupported("unterminated string")
            out.append(m.group(0)); i = m.end()
        else:
            out.append(src[i]); i += 1
    return "".join(out)


PUNCT = ["..=", "<<=", ">>=", "...", "::", "->", "=>", "<=", ">=", "==", "!=", "||", "&&", "..", "+=", "-=", "*=", "/=",
         "<<", ">>"] + list("()[]{},;.&=:<>!+-*/%|#'$?^@~")
INT_SUFFIX = ("usize", "isize", "u64", "i64", "u32", "i32", "u16", "i16", "u8", "i8", "u128", "i128")
NUM = re.compile(r"\d[\d_]*")


class Tok:
    __slots__ = ("kind", "text", "pos", "end", "suffix")

    def __init__(self, kind, text, pos, end, suffix=""):
        self.kind, self.text, self.pos, self.end, self.suffix = kind, text, pos, end, suffix

    def __repr__(self): return f"{self.kind}:{self.text}"


class Source:
    def __init__(self, path, text=None):
        self.path = path
        self.raw = open(path).read() if text is None else text
        self.text = blank_comments(self.raw)
        self.toks = self._lex()

    def where(self, pos):
        line = self.text.count("\n", 0, pos) + 1
        col = pos - (self.text.rfind("\n", 0, pos) + 1) + 1
        return f"{os.path.basename(self.path)}:{line}:{col}"

    def err(self, pos, end, msg):
        snippet = " ".join(self.raw[pos:max(end, pos + 1)].split())
        if len(snippet) > 90: snippet = snippet[:87] + "..."
        return Unsupported(f"{self.where(pos)}: {msg}: `{snippet}`")

    def _lex(self):
        s, i, n, toks = self.text, 0, len(self.text), []
        while i < n:
            c = s[i]
            if c.isspace(): i += 1; continue
            if c == '"':
                m = re.compile(r'"(?:[^"\\]|\\.)*"', re.S).match(s, i)
                toks.append(Tok("str", m.group(0), i, m.end())); i = m.end(); continue
            if c.isdigit():
                mh = re.compile(r"0[xob][0-9a-fA-F_]+(?:_?(?:%s))?\b" % "|".join(INT_SUFFIX)).match(s, i)
                if mh:
                    body = re.sub(r"_?(?:%s)$" % "|".join(INT_SUFFIX), "", mh.group(0)).replace("_", "")
                    toks.append(Tok("int", str(int(body, 0)), i, mh.end())); i = mh.end(); continue
                m = NUM.match(s, i); j = m.end(); isf = False
                if j < n and s[j] == "." and not (j + 1 < n and (s[j + 1] == "." or s[j + 1].isalpha() or s[j + 1] == "_")):
                    isf = True; j += 1
                    m2 = NUM.match(s, j)
                    if m2: j = m2.end()
                m3 = re.compile(r"[eE][+-]?\d+").match(s, j)
                if m3: isf = True; j = m3.end()
                body = s[i:j]; suffix = ""
                m4 = re.compile(r"_?(f64|f32|" + "|".join(INT_SUFFIX) + r")\b").match(s, j)
                if m4:
                    suffix = m4.group(1); j = m4.end()
                    if suffix in ("f64", "f32"): isf = True
                if j < n and (s[j].isalnum() or s[j] == "_"):
                    raise self.err(i, j + 1, "cannot tokenize number")
                toks.append(Tok("float" if isf else "int", body.replace("_", ""), i, j, suffix)); i = j; continue
            if c.isalpha() or c == "_":
                m = re.compile(r"[A-Za-z_][A-Za-z0-9_]*").match(s, i)
                toks.append(Tok("id", m.group(0), i, m.end())); i = m.end(); continue
            for p in PUNCT:
                if s.startswith(p, i):
                    toks.append(Tok("p", p, i, i + len(p))); i += len(p); break
            else:
                raise self.err(i, i + 1, "cannot tokenize")
        toks.append(Tok("eof", "", n, n))
        return toks


# ----------------------------------------------------------------------------------------------- AST
class N:
    """AST node: kind, fields, source span"""

    def __init__(self, kind, pos, end, **kw):
        self.kind, self.pos, self.end = kind, pos, end
        self.__dict__.update(kw)

    def __repr__(self):
        return f"N({self.kind}, " + ", ".join(f"{k}={v!r}" for k, v in self.__dict__.items() if k not in ("kind", "pos", "end")) + ")"


BINPREC = {"||": 1, "&&": 2, "==": 3, "!=": 3, "<": 3, ">": 3, "<=": 3, ">=": 3, "|": 4, "^": 5, "&": 6,
           "<<": 7, ">>": 7, "+": 8, "-": 8, "*": 9, "/": 9, "%": 9}
AS_PREC = 10


class Parser:
    def __init__(self, src, lo=0, hi=None):
        self.src, self.t, self.i = src, src.toks, lo
        self.hi = len(src.toks) - 1 if hi is None else hi

    # -- token helpers
    def peek(self, k=0): return self.t[min(self.i + k, len(self.t) - 1)]
    def at(self, text, k=0):
        t = self.peek(k); return t.kind in ("p", "id") and t.text == text
    def next(self):
        t = self.t[self.i]; self.i += 1; return t
    def expect(self, text):
        t = self.peek()
        if not self.at(text): raise self.src.err(t.pos, t.end, f"expected `{text}`")
        return self.next()
    def fail(self, node_or_tok, msg):
        return self.src.err(node_or_tok.pos, node_or_tok.end, msg)

    # -- items
    def skip_balanced(self):
        """at an opening bracket: skip to after its partner"""
        pairs = {"(": ")", "[": "]", "{": "}"}
        t = self.next(); close = pairs[t.text]; depth = 1
        while depth:
            u = self.next()
            if u.kind == "eof": raise self.fail(t, "unbalanced bracket")
            if u.kind == "p" and u.text == t.text: depth += 1
            elif u.kind == "p" and u.text == close: depth -= 1

    def parse_type(self, stops):
        """type as text, up to one of `stops` at bracket depth 0"""
        start = self.peek().pos; depth = 0; parts = []
        while True:
            t = self.peek()
            if t.kind == "eof": raise self.fail(t, "unterminated type")
            if depth == 0 and t.kind == "p" and t.text in stops: break
            if t.kind == "p" and t.text in "([<": depth += 1
            if t.kind == "p" and t.text in ")]>":
                if depth == 0: break
                depth -= 1
            parts.append(t.text); self.next()
        return "".join(parts)

    def parse_fn(self):
        kw = self.expect("fn"); name = self.next()
        if name.kind != "id": raise self.fail(name, "function name expected")
        if self.at("<"): raise self.fail(self.peek(), "generic functions are outside the subset")
        self.expect("(")
        params, has_self = [], False
        while not self.at(")"):
            if self.at("&") or self.at("self") or self.at("mut"):
                st = self.peek()
                while self.at("&") or self.at("mut"): self.next()
                if self.at("'"): self.next(); self.next()
                if not self.at("self"): raise self.fail(st, "unsupported parameter")
                self.next(); has_self = True
            else:
                p = self.next()
                if p.kind != "id": raise self.fail(p, "parameter name expected (patterns are outside the subset)")
                self.expect(":")
                params.append((p.text, self.parse_type({",", ")"}), p))
            if self.at(","): self.next()
        self.expect(")")
        ret = None
        if self.at("->"):
            self.next(); ret = self.parse_type({"{", "where"})
        if not self.at("{"): raise self.fail(self.peek(), "function body expected")
        body = self.parse_block()
        return N("fn", kw.pos, body.end, name=name.text, params=params, has_self=has_self, ret=ret, body=body)

    # -- blocks and statements
    def parse_block(self):
        lb = self.expect("{"); stmts, tail = [], None
        while not self.at("}"):
            t = self.peek()
            if t.kind == "eof": raise self.fail(lb, "unterminated block")
            if self.at(";"): self.next(); continue
            if self.at("let"):
                self.next()
                mut = False
                if self.at("mut"): self.next(); mut = True
                nm = self.next()
                if nm.kind != "id": raise self.fail(nm, "`let` with a pattern is outside the subset")
                ty = None
                if self.at(":"):
                    self.next(); ty = self.parse_type({"=", ";"})
                self.expect("=")
                e = self.parse_expr()
                semi = self.expect(";")
                stmts.append(N("let", t.pos, semi.end, name=nm.text, ty=ty, e=e, mut=mut)); continue
            if t.kind == "id" and t.text == "for":
                self.next(); pat = []
                if self.at("("):
                    self.next()
                    while not self.at(")"):
                        v = self.next()
                        if v.kind != "id": raise self.fail(v, "loop pattern: names expected")
                        pat.append(v.text)
                        if self.at(","): self.next()
                    self.next()
                else:
                    v = self.next()
                    if v.kind != "id": raise self.fail(v, "loop variable expected")
                    pat.append(v.text)
                self.expect("in")
                it = self.parse_expr(nostruct=True)
                body = self.parse_block()
                stmts.append(N("for", t.pos, body.end, pat=pat, iter=it, body=body)); continue
            if t.kind == "id" and t.text in ("while", "match", "unsafe", "fn", "struct", "impl", "use", "const", "static"):
                raise self.fail(t, f"`{t.text}` is outside the subset")
            e = self.parse_expr(stmt=True)
            if self.peek().kind == "p" and self.peek().text in ("+=", "-=", "*=", "/="):
                op = self.next(); rhs = self.parse_expr(); semi = self.expect(";")
                stmts.append(N("opassign", e.pos, semi.end, op=op.text[0], target=e, e=rhs)); continue
            if self.at("=") :
                raise self.fail(self.peek(), "assignment (mutable state) is outside the subset")
            if self.at(";"):
                semi = self.next(); stmts.append(N("semi", e.pos, semi.end, e=e))
            elif self.at("}"):
                tail = e
            elif e.kind in ("if", "block"):
                stmts.append(N("semi", e.pos, e.end, e=e))
            else:
                raise self.fail(self.peek(), "expected `;` or `}`")
        rb = self.expect("}")
        return N("block", lb.pos, rb.end, stmts=stmts, tail=tail)

    # -- expressions
    def parse_expr(self, prec=0, nostruct=False, stmt=False):
        lhs = self.parse_unary(nostruct)
        if stmt and lhs.kind in ("if", "block") and not self.at("."):
            # expression statement ending in a block: not continued by a binary operator
            return lhs
        while True:
            t = self.peek()
            if t.kind == "id" and t.text == "as":
                if AS_PREC < prec: break
                self.next(); tp = self.peek(); ty = self.next()
                if ty.kind != "id": raise self.fail(tp, "cast target type expected")
                lhs = N("cast", lhs.pos, ty.end, e=lhs, ty=ty.text); continue
            if t.kind != "p" or t.text not in BINPREC: break
            p = BINPREC[t.text]
            if p < prec: break
            if t.text in ("^", "<<", ">>", "%"): raise self.fail(t, f"operator `{t.text}` is outside the subset")
            self.next()
            rhs = self.parse_expr(p + 1, nostruct)
            if p == 3 and self.peek().kind == "p" and BINPREC.get(self.peek().text) == 3:
                raise self.fail(self.peek(), "chained comparison")
            lhs = N("bin", lhs.pos, rhs.end, op=t.text, a=lhs, b=rhs)
        return lhs

    def parse_unary(self, nostruct):
        t = self.peek()
        if t.kind == "p" and t.text in ("-", "!"):
            self.next(); e = self.parse_unary_operand(nostruct)
            return N("un", t.pos, e.end, op=t.text, e=e)
        if t.kind == "p" and t.text in ("&", "*"):
            self.next()
            if self.at("mut"): raise self.fail(self.peek(), "`&mut` is outside the subset")
            e = self.parse_unary_operand(nostruct)
            return N("ref", t.pos, e.end, e=e)
        return self.parse_postfix(nostruct)

    def parse_unary_operand(self, nostruct):
        # unary operators bind tighter than `as` and every binary operator, looser than method calls
        return self.parse_unary(nostruct)

    def parse_postfix(self, nostruct):
        e = self.parse_primary(nostruct)
        while True:
            if self.at(".") :
                dot = self.next(); nm = self.next()
                if nm.kind == "int": raise self.fail(nm, "tuple fields are outside the subset")
                if nm.kind != "id": raise self.fail(nm, "method or field name expected")
                if self.at("::"): raise self.fail(self.peek(), "turbofish is outside the subset")
                if self.at("("):
                    args, end = self.parse_args()
                    e = N("mcall", e.pos, end, recv=e, name=nm.text, args=args)
                else:
                    e = N("field", e.pos, nm.end, recv=e, name=nm.text)
            elif self.at("["):
                raise self.fail(self.peek(), "indexing (slices) is outside the subset")
            elif self.at("?"):
                raise self.fail(self.peek(), "`?` is outside the subset")
            else:
                return e

    def parse_args(self):
        self.expect("("); args = []
        while not self.at(")"):
            args.append(self.parse_expr())
            if self.at(","): self.next()
            elif not self.at(")"): raise self.fail(self.peek(), "expected `,` or `)`")
        rp = self.expect(")")
        return args, rp.end

    def parse_primary(self, nostruct):
        t = self.peek()
        if t.kind in ("float", "int"):
            self.next(); return N("lit", t.pos, t.end, text=t.text, isf=(t.kind == "float"), suffix=t.suffix)
        if t.kind == "str": raise self.fail(t, "string outside a macro")
        if t.kind == "p" and t.text == "(":
            self.next()
            if self.at(")"): raise self.fail(t, "unit value is outside the subset")
            e = self.parse_expr()
            if self.at("..=") or self.at(".."):
                op = self.next()
                if op.text == "..": raise self.fail(op, "half-open range is outside the subset (only `a ..= b`)")
                hi = self.parse_expr()
                rp = self.expect(")")
                return N("range", t.pos, rp.end, lo=e, hi=hi)
            if self.at(","): raise self.fail(self.peek(), "tuples are outside the subset")
            rp = self.expect(")")
            return N("paren", t.pos, rp.end, e=e)
        if t.kind == "p" and t.text == "{":
            return self.parse_block()
        if t.kind == "p" and t.text == "|":
            self.next(); nm = self.next()
            if nm.kind != "id": raise self.fail(nm, "closure parameter: a single name expected")
            self.expect("|")
            body = self.parse_expr()
            return N("closure", t.pos, body.end, param=nm.text, body=body)
        if t.kind == "p" and t.text == "||":
            raise self.fail(t, "closure without parameters is outside the subset")
        if t.kind == "id":
            if t.text == "if": return self.parse_if()
            if t.text == "return":
                self.next()
                if self.at(";") or self.at("}"): raise self.fail(t, "`return` without a value")
                e = self.parse_expr()
                return N("return", t.pos, e.end, e=e)
            if t.text == "loop":
                self.next(); body = self.parse_block()
                return N("loop", t.pos, body.end, body=body)
            if t.text == "break":
                self.next()
                if self.at(";") or self.at("}"): raise self.fail(t, "`break` without a value is outside the subset")
                e = self.parse_expr()
                return N("break", t.pos, e.end, e=e)
            if t.text in ("match", "while", "for", "unsafe", "move", "continue"):
                raise self.fail(t, f"`{t.text}` is outside the subset")
            # path
            self.next(); segs = [t.text]; end = t.end
            while self.at("::"):
                self.next(); s = self.next()
                if s.kind != "id": raise self.fail(s, "path segment expected")
                segs.append(s.text); end = s.end
            if self.at("!"):
                bang = self.next()
                if not (self.at("(") or self.at("[") or self.at("{")): raise self.fail(bang, "macro arguments expected")
                if segs[-1] in ("assert", "debug_assert"):
                    self.expect("(")
                    c = self.parse_expr()
                    depth = 1
                    while depth:     # skip the message arguments
                        u = self.next()
                        if u.kind == "eof": raise self.fail(t, "unterminated macro")
                        if u.kind == "p" and u.text in "([{": depth += 1
                        if u.kind == "p" and u.text in ")]}": depth -= 1
                    if segs[-1] == "debug_assert": raise self.fail(t, "debug_assert! depends on the build profile")
                    return N("assert", t.pos, self.t[self.i - 1].end, cond=c)
                if segs[-1] in ("panic", "unreachable", "unimplemented", "todo"):
                    self.skip_balanced()
                    return N("panic", t.pos, self.t[self.i - 1].end)
                raise self.fail(t, f"macro `{segs[-1]}!` is outside the subset")
            if self.at("("):
                args, end = self.parse_args()
                return N("call", t.pos, end, path=segs, args=args)
            if self.at("{") and not nostruct and (segs[-1][0].isupper()):
                return self.parse_struct_lit(t, segs)
            return N("path", t.pos, end, segs=segs)
        raise self.fail(t, "expression expected")

    def parse_struct_lit(self, t, segs):
        self.expect("{"); fields = []
        while not self.at("}"):
            nm = self.next()
            if nm.kind != "id": raise self.fail(nm, "field name expected")
            if self.at(":"):
                self.next(); e = self.parse_expr()
            else:
                e = N("path", nm.pos, nm.end, segs=[nm.text])
            fields.append((nm.text, e))
            if self.at(","): self.next()
            elif self.at(".."): raise self.fail(self.peek(), "struct update syntax is outside the subset")
        rb = self.expect("}")
        return N("struct", t.pos, rb.end, path=segs, fields=fields)

    def parse_if(self):
        kw = self.expect("if")
        if self.at("let"): raise self.fail(self.peek(), "`if let` is outside the subset")
        c = self.parse_expr(nostruct=True)
        th = self.parse_block(); el = None; end = th.end
        if self.at("else"):
            self.next()
            el = self.parse_if() if self.at("if") else self.parse_block()
            end = el.end
        return N("if", kw.pos, end, cond=c, th=th, el=el)


# ----------------------------------------------------------------------------------------------- module scan
class Module:
    """the items of one source file that the translator can look at"""

    def __init__(self, path, text=None):
        self.src = Source(path, text)
        self.structs = {}      # name -> [(field, type)]
        self.consts = {}       # name -> (type, expr node)
        self.fns = {}          # (owner or None, name) -> fn node      owner = type name of the impl
        self.macro_fns = {}    # (macro name, owner, fn name) -> fn node
        self.aliases = {}      # `type A = B;`
        self.assoc = {}        # (owner, associated type name) -> type text     (`type PDFType = f64;` inside an impl)
        self._scan(0, len(self.src.toks) - 1, None, None)

    def _scan(self, lo, hi, owner, macro):
        p = Parser(self.src, lo, hi); t = self.src.toks
        while p.i < hi:
            tk = p.peek()
            if tk.kind == "id" and tk.text == "struct":
                p.next(); nm = p.next()
                if p.at("{"):
                    p.next(); fields = []
                    while not p.at("}"):
                        while p.at("#"): p.next(); p.skip_balanced()
                        if p.at("pub"):
                            p.next()
                            if p.at("("): p.skip_balanced()
                        f = p.next(); p.expect(":")
                        fields.append((f.text, p.parse_type({",", "}"})))
                        if p.at(","): p.next()
                    p.next(); self.structs[nm.text] = fields
                continue
            if tk.kind == "id" and tk.text == "const" and p.peek(1).kind == "id" and p.at(":", 2):
                p.next(); nm = p.next(); p.expect(":"); ty = p.parse_type({"="}); p.expect("=")
                if ty in ("f64",) or ty in INT_SUFFIX:
                    e = p.parse_expr(); p.expect(";"); self.consts[nm.text] = (ty, e)
                else:
                    while not p.at(";"):
                        if p.at("(") or p.at("[") or p.at("{"): p.skip_balanced()
                        else: p.next()
                continue
            if tk.kind == "id" and tk.text == "type" and owner is None and p.peek(1).kind == "id" and p.at("=", 2) and p.peek(3).kind == "id" and p.at(";", 4):
                self.aliases[p.peek(1).text] = p.peek(3).text
                p.i += 5; continue
            if tk.kind == "id" and tk.text == "type" and owner is not None and p.peek(1).kind == "id" and p.at("=", 2):
                nm = p.peek(1).text; p.i += 3
                self.assoc[(owner, nm)] = p.parse_type({";"}); continue
            if tk.kind == "id" and tk.text == "trait" and p.peek(1).kind == "id":
                p.next(); nm = p.next()
                while not p.at("{"): p.next()
                start = p.i; p.skip_balanced()
                self.structs.setdefault(nm.text, [])      # a trait has no fields
                self._scan(start + 1, p.i - 1, nm.text, macro)
                continue
            if tk.kind == "id" and tk.text == "impl":
                p.next(); hdr = []
                while not p.at("{"):
                    hdr.append(p.next().text)
                if "for" in hdr: ty = hdr[hdr.index("for") + 1:]
                else: ty = hdr
                ty = [x for x in ty if re.fullmatch(r"[A-Za-z_]\w*", x)]
                name = ty[0] if ty else None
                name = self.aliases.get(name, name)
                start = p.i; p.skip_balanced()
                self._scan(start + 1, p.i - 1, name, macro)
                continue
            if tk.kind == "id" and tk.text == "macro_rules":
                p.next(); p.expect("!"); nm = p.next()
                start = p.i; p.skip_balanced()
                self._scan(start + 1, p.i - 1, None, nm.text)
                continue
            if tk.kind == "id" and tk.text == "mod" and p.peek(1).kind == "id" and p.at("{", 2):
                p.next(); p.next(); p.skip_balanced(); continue      # nested modules (tests) are not scanned
            if tk.kind == "id" and tk.text == "fn":
                save = p.i
                # find the extent of the function without parsing its body
                q = Parser(self.src, p.i, hi)
                while not q.at("{") and not q.at(";"):
                    if q.at("("): q.skip_balanced()
                    else: q.next()
                if q.at(";"): p.i = q.i + 1; continue
                q.skip_balanced()
                nm = t[save + 1].text
                entry = (save, q.i)
                if macro is not None: self.macro_fns.setdefault((macro, owner, nm), entry)
                else: self.fns.setdefault((owner, nm), entry)
                p.i = q.i; continue
            if tk.kind == "p" and tk.text in "([{" and macro is not None:
                # macro matcher / transcriber brackets: look inside
                start = p.i; p.skip_balanced(); self._scan(start + 1, p.i - 1, owner, macro); continue
            p.next()

    def fn(self, owner, name, macro=None):
        key = (macro, owner, name) if macro else (owner, name)
        tab = self.macro_fns if macro else self.fns
        if key not in tab:
            raise Unsupported(f"{os.path.basename(self.src.path)}: function `{name}` of `{owner}`" + (f" in macro `{macro}`" if macro else "") + " not found")
        lo, hi = tab[key]
        return Parser(self.src, lo, hi).parse_fn()


# ----------------------------------------------------------------------------------------------- literals
def _fhex(text):
    x = float(text)            # correctly rounded, as rustc's literal parser
    if x != x or x in (float("inf"), float("-inf")): raise ValueError("non-finite literal " + text)
    if x == 0: return "0"
    m = re.fullmatch(r"(-?)0x([01])\.([0-9a-f]+)p([+-]\d+)", x.hex())
    if not m: raise ValueError("unexpected float " + x.hex())
    s = f"0x{m.group(2)}.{m.group(3)}p{m.group(4)}"
    return f"(-{s})" if m.group(1) else s


def lit_pair(text):
    fr = Fraction(text)
    return f"(({fr.numerator} # {fr.denominator})%Q, {_fhex(text)}%float)"


def float_literal(text):
    """Gallina term for an f64 literal"""
    fr = Fraction(text)
    if fr.denominator == 1:
        n = fr.numerator
        if n == 0: return "zero O"
        if n == 1: return "one O"
        if n == 2: return "two O"
        if n < 2 ** 53: return f"ofZ O {n}"
    if fr.numerator < 2 ** 53 and fr.denominator < 2 ** 53:
        return f"ofQ O ({fr.numerator} # {fr.denominator})"
    return f"ofLit O {lit_pair(text)}"


# ----------------------------------------------------------------------------------------------- translation
COQ_RESERVED = {
    # Gallina keywords and the global names the generated text uses
    "as", "at", "cofix", "else", "end", "exists", "exists2", "fix", "for", "forall", "fun", "if", "IF", "in", "let",
    "match", "mod", "Prop", "return", "Set", "then", "Type", "using", "where", "with", "by",
    "O", "T", "zero", "one", "two", "add", "sub", "mul", "div", "neg", "abs", "sqrt", "ltb", "leb", "eqb", "ofZ", "ofQ",
    "truncZ", "ofLit", "f1", "f2", "pi", "powi", "fmin", "fmax", "is_nan", "map", "Some", "None", "Fin", "PInf", "Undef",
    "negb", "andb", "orb", "true", "false", "Z", "Q", "nat", "list", "bool", "option", "rs_range", "rs_iter_sum", "rs_seq", "rs_fold_enum", "rs_fold_enum_from",
    "Exp", "Ln", "Sin", "Cos", "Ln1p", "Expm1", "Exp2", "Floor", "Pow", "S", "I", "R", "N", "Gam", "Bet", "Erf", "LnGam", "Binom",
}
F1 = {"exp": "Exp", "ln": "Ln", "sin": "Sin", "cos": "Cos", "tan": "Tan", "ln_1p": "Ln1p", "exp_m1": "Expm1",
      "exp2": "Exp2", "floor": "Floor", "ceil": "Ceil", "log2": "Log2", "log10": "Log10", "tanh": "Tanh",
      "sinh": "Sinh", "cosh": "Cosh", "atan": "Atan"}
INT_TYPES = set(INT_SUFFIX)


class Config:
    """per-target tables
       calls : crate function name -> (Gallina parameter name, [arg types], result type)   types: 'f' | 'i'
       consts: constant name -> Gallina term of type T (overrides the inlined definition of a module const)
       param_types: Rust type text -> 'f' | 'i' (extra spellings, e.g. a macro's `$t1` or `Self::PDFType`)"""

    def __init__(self, calls=None, consts=None, param_types=None, self_calls=None, arrays=None, draws=None):
        self.draws = draws or []             # source texts of the random draws a rejection loop may make, e.g. "alea::f64()"
        self.arrays = arrays or {}           # const array name -> (Gallina list term, element type text, rendering of an element `v` as a T term, with {v})
        self.self_calls = self_calls or {}   # method name -> (Gallina parameter, [arg types], result type): `self.m(args)` of an abstract method
        self.calls = calls or {}
        self.consts = consts or {}
        self.param_types = param_types or {}


class Translated:
    def __init__(self, name, text, sig, mode, used_calls, notes):
        self.name, self.text, self.sig, self.mode, self.used_calls, self.notes = name, text, sig, mode, used_calls, notes


class Translator:
    def __init__(self, module, config=None):
        self.m, self.src, self.cfg = module, module.src, config or Config()
        self.used_calls = []
        self.notes = []
        self.owner = None
        self.inline_depth = 0

    def fail(self, node, msg): return self.src.err(node.pos, node.end, msg)

    def ty_of_rust(self, ty, node=None):
        ty = ty.replace(" ", "")
        while ty.startswith("&"): ty = ty[1:]
        if ty in self.cfg.param_types: return self.cfg.param_types[ty]
        if ty.startswith("Self::") and (self.owner, ty[6:]) in self.m.assoc: ty = self.m.assoc[(self.owner, ty[6:])].replace(" ", "")
        if ty == "f64": return "f"
        if ty in INT_TYPES: return "i"
        if ty == "bool": return "b"
        msg = f"type `{ty}` is outside the subset"
        raise (self.fail(node, msg) if node is not None else Unsupported(msg))

    def ident(self, name, env=None, key=None):
        """Gallina name for the Rust variable `name`; never a reserved word / a name the generated text uses, and (given
           env) never the name of ANOTHER variable that is still visible (a local must not capture `self.f`'s binder)"""
        reserved = COQ_RESERVED | {c[0] for c in self.cfg.calls.values()} | {c[0] for c in self.cfg.self_calls.values()}
        nm = name + "_" if name in reserved or name.startswith("_") else name
        if env is not None:
            taken = {v[0].split()[-1] for k, v in env.items() if k != key}
            while nm in taken: nm += "'"
        return nm

    # ---- expressions: returns (term, type)
    def expr(self, e, env):
        k = e.kind
        if k == "paren" or k == "ref": return self.expr(e.e, env)
        if k == "lit":
            if e.isf:
                try: return float_literal(e.text), "f"
                except ValueError as ex: raise self.fail(e, str(ex))
            return f"{int(e.text)}%Z", "i"
        if k == "path": return self.path(e, env)
        if k == "field":
            if e.recv.kind == "path" and e.recv.segs == ["self"]:
                key = "self." + e.name
                if key not in env: raise self.fail(e, f"`self.{e.name}` is not a numeric field of the type")
                return env[key]
            raise self.fail(e, "field access on something other than `self`")
        if k == "un":
            s, t = self.expr(e.e, env)
            if e.op == "-":
                if t == "f": return f"neg O ({s})", "f"
                if t == "i":
                    return f"Z.opp ({s})", "i"
                raise self.fail(e, "unary minus on a non-number")
            if t != "b": raise self.fail(e, "`!` on a non-boolean (bitwise not is outside the subset)")
            return f"negb ({s})", "b"
        if k == "cast":
            s, t = self.expr(e.e, env)
            if e.ty == "f64":
                if t == "f": return s, "f"
                if t == "i": return f"ofZ O ({s})", "f"
            elif e.ty in INT_TYPES:
                if t == "i":
                    note = "integer-to-integer `as` casts are the identity on Z (no wrap-around)"
                    if note not in self.notes: self.notes.append(note)
                    return s, "i"
                if t == "f": raise self.fail(e, "float-to-integer cast is outside the subset")
            raise self.fail(e, f"cast to `{e.ty}` is outside the subset")
        if k == "bin": return self.binop(e, env)
        if k == "mcall": return self.mcall(e, env)
        if k == "call": return self.call(e, env)
        if k == "if":
            c = self.cond(e.cond, env)
            if e.el is None: raise self.fail(e, "value `if` without `else`")
            a, ta = self.value_block(e.th, env)
            b, tb = self.value_block(e.el, env) if e.el.kind == "block" else self.expr(e.el, env)
            if ta != tb: raise self.fail(e, "branches of different types")
            return f"if {c} then {a} else {b}", ta
        if k == "block": return self.value_block(e, env)
        if k == "range": raise self.fail(e, "a range may only be used as `(a ..= b).contains(&x)` or `(a ..= b).map(|i| ..).sum()`")
        if k == "return": raise self.fail(e, "`return` inside an expression")
        if k in ("assert", "panic"): raise self.fail(e, "panic inside an expression")
        if k == "closure": raise self.fail(e, "closure outside `.map(..)`")
        if k == "struct": raise self.fail(e, "struct literal outside the tail of a constructor")
        raise self.fail(e, f"unsupported expression ({k})")

    def value_block(self, b, env):
        env = dict(env); lets = []
        for s in b.stmts:
            if s.kind != "let" or s.mut: raise self.fail(s, "statement inside a value block (only immutable `let` is allowed there)")
            lets.append(self.let(s, env))
        if b.tail is None: raise self.fail(b, "block without a value")
        s, t = self.expr(b.tail, env)
        return "".join(lets) + s, t

    def let(self, s, env):
        v, t = self.expr(s.e, env)
        if s.ty is not None and self.ty_of_rust(s.ty, s) != t: raise self.fail(s, "declared type differs from the inferred one")
        nm = self.ident(s.name, env, s.name)
        env[s.name] = (nm, t)
        return f"let {nm} := {v} in "

    def cond(self, e, env):
        s, t = self.expr(e, env)
        if t != "b": raise self.fail(e, "condition is not a boolean")
        return s

    def path(self, e, env):
        segs = e.segs
        if len(segs) == 1 and segs[0] in env: return env[segs[0]]
        name = segs[-1]
        if len(segs) == 1 and name in self.cfg.consts: return self.cfg.consts[name], "f"
        if (segs == ["PI"] and "PI" not in self.m.consts) or segs in (["std", "f64", "consts", "PI"], ["f64", "consts", "PI"], ["core", "f64", "consts", "PI"], ["consts", "PI"]):
            return "pi O", "f"
        if segs in (["f64", "EPSILON"], ["std", "f64", "EPSILON"]):
            return "ofQ O (1 # 4503599627370496)", "f"
        if len(segs) == 1 and name in self.m.consts:
            ty, ce = self.m.consts[name]
            s, t = self.expr(ce, {})
            want = self.ty_of_rust(ty)
            if t != want: raise self.fail(ce, "constant's type differs from its initialiser")
            return s, t
        if segs in (["f64", "INFINITY"], ["f64", "NAN"], ["f64", "NEG_INFINITY"], ["std", "f64", "INFINITY"], ["std", "f64", "NAN"]):
            raise self.fail(e, "infinity / NaN constants are only supported as a whole result (moment mode)")
        raise self.fail(e, "unknown name")

    def binop(self, e, env):
        a, ta = self.expr(e.a, env); b, tb = self.expr(e.b, env); op = e.op
        if op in ("&&", "||", "&", "|"):
            if ta != "b" or tb != "b": raise self.fail(e, f"`{op}` on non-booleans")
            return (f"andb ({a}) ({b})" if op in ("&&", "&") else f"orb ({a}) ({b})"), "b"
        if ta != tb or ta == "b":
            raise self.fail(e, f"operands of `{op}` have different or non-numeric types")
        if ta == "f":
            tab = {"+": "add O ({a}) ({b})", "-": "sub O ({a}) ({b})", "*": "mul O ({a}) ({b})", "/": "div O ({a}) ({b})",
                   "<": "ltb O ({a}) ({b})", ">": "ltb O ({b}) ({a})", "<=": "leb O ({a}) ({b})", ">=": "leb O ({b}) ({a})",
                   "==": "eqb O ({a}) ({b})", "!=": "negb (eqb O ({a}) ({b}))"}
        else:
            tab = {"+": "Z.add ({a}) ({b})", "-": "Z.sub ({a}) ({b})", "*": "Z.mul ({a}) ({b})",
                   "<": "Z.ltb ({a}) ({b})", ">": "Z.ltb ({b}) ({a})", "<=": "Z.leb ({a}) ({b})", ">=": "Z.leb ({b}) ({a})",
                   "==": "Z.eqb ({a}) ({b})", "!=": "negb (Z.eqb ({a}) ({b}))"}
        if op not in tab: raise self.fail(e, f"operator `{op}` on this type is outside the subset")
        return tab[op].format(a=a, b=b), ("b" if op in ("<", ">", "<=", ">=", "==", "!=") else ta)

    @staticmethod
    def strip(e):
        while e.kind in ("paren", "ref"): e = e.e
        return e

    def mcall(self, e, env):
        name, args = e.name, e.args
        recv = self.strip(e.recv)
        # ranges
        if recv.kind == "range":
            if name == "contains" and len(args) == 1:
                lo, tl = self.expr(recv.lo, env); hi, th = self.expr(recv.hi, env); x, tx = self.expr(args[0], env)
                if not (tl == th == tx) or tl == "b": raise self.fail(e, "range and argument of different types")
                if tl == "f": return f"andb (leb O ({lo}) ({x})) (leb O ({x}) ({hi}))", "b"
                return f"andb (Z.leb ({lo}) ({x})) (Z.leb ({x}) ({hi}))", "b"
            raise self.fail(e, f"`.{name}` on a range is outside the subset")
        if name == "sum" and not args:
            inner = self.strip(e.recv)
            if inner.kind == "mcall" and inner.name == "map" and len(inner.args) == 1 and inner.args[0].kind == "closure" \
               and self.strip(inner.recv).kind == "range":
                rg = self.strip(inner.recv); cl = inner.args[0]
                lo, tl = self.expr(rg.lo, env); hi, th = self.expr(rg.hi, env)
                if tl != "i" or th != "i": raise self.fail(rg, "only integer ranges can be summed over")
                env2 = dict(env); v = self.ident(cl.param, env, cl.param); env2[cl.param] = (v, "i")
                body, tb = self.expr(cl.body, env2)
                if tb != "f": raise self.fail(cl, "only sums of f64 terms are supported")
                return f"rs_iter_sum O (map (fun {v} : Z => {body}) (rs_range ({lo}) ({hi})))", "f"
            raise self.fail(e, "`.sum()` is only supported as `(a ..= b).map(|i| expr).sum()`")
        if recv.kind == "path" and recv.segs == ["self"]:
            return self.self_call(e, env)
        r, tr = self.expr(e.recv, env)
        if name in ("min", "max") and len(args) == 1:
            a, ta = self.expr(args[0], env)
            if ta != tr: raise self.fail(e, "receiver and argument of different types")
            if tr == "f": return f"f{name} O ({r}) ({a})", "f"
            if tr == "i": return f"Z.{name} ({r}) ({a})", "i"
        if tr != "f": raise self.fail(e, f"method `.{name}` on a non-f64 receiver is outside the subset")
        if name in F1 and not args: return f"f1 O {F1[name]} ({r})", "f"
        if name == "sqrt" and not args: return f"sqrt O ({r})", "f"
        if name == "abs" and not args: return f"abs O ({r})", "f"
        if name == "powi" and len(args) == 1:
            a, ta = self.expr(args[0], env)
            if ta != "i": raise self.fail(args[0], "powi exponent must be an integer expression")
            return f"powi O ({r}) ({a})", "f"
        if name == "powf" and len(args) == 1:
            a, ta = self.expr(args[0], env)
            if ta != "f": raise self.fail(args[0], "powf exponent must be f64")
            base = self.strip(e.recv)
            if base.kind == "lit" and base.isf and Fraction(base.text) == 2:
                note = "R1: `2_f64.powf(e)` rendered as exp2(e) (what rustc/LLVM emits)"
                if note not in self.notes: self.notes.append(note)
                return f"f1 O Exp2 ({a})", "f"
            return f"f2 O Pow ({r}) ({a})", "f"
        raise self.fail(e, f"method `.{name}` with {len(args)} argument(s) is outside the subset")

    def self_call(self, e, env):
        if e.name in self.cfg.self_calls:
            cq, argt, rt = self.cfg.self_calls[e.name]
            if len(argt) != len(e.args): raise self.fail(e, "wrong number of arguments")
            out = []
            for a, want in zip(e.args, argt):
                s, t = self.expr(a, env)
                if t != want: raise self.fail(a, "argument of the wrong type")
                out.append(f" ({s})")
            if cq not in self.used_calls: self.used_calls.append(cq)
            return cq + "".join(out), rt
        if e.args: raise self.fail(e, "`self.m(args)` is outside the subset (only argument-less methods are inlined)")
        if self.owner is None: raise self.fail(e, "`self` method outside an impl")
        if self.inline_depth > 4: raise self.fail(e, "recursive `self` method")
        fn = self.m.fn(self.owner, e.name)
        if fn.params or not fn.has_self: raise self.fail(e, "only `&self` methods without arguments are inlined")
        b = fn.body
        if b.stmts or b.tail is None: raise self.fail(e, f"`self.{e.name}()`: only single-expression methods are inlined")
        self.inline_depth += 1
        try: s, t = self.expr(b.tail, {k: v for k, v in env.items() if k.startswith("self.")})
        finally: self.inline_depth -= 1
        return s, t

    def call(self, e, env):
        name = "::".join(e.path)
        if name in self.cfg.calls:
            cq, argt, rt = self.cfg.calls[name]
            if not argt:
                # a call without arguments is a random draw: each occurrence is a different value
                if cq in self.used_calls: raise self.fail(e, f"second call of `{name}()` in one function (each draw is a different value)")
                self.used_calls.append(cq)
                return cq, rt
            if len(argt) != len(e.args): raise self.fail(e, "wrong number of arguments")
            out = []
            for a, want in zip(e.args, argt):
                s, t = self.expr(a, env)
                if t != want: raise self.fail(a, "argument of the wrong type")
                out.append(f"({s})")
            if cq not in self.used_calls: self.used_calls.append(cq)
            return f"{cq} " + " ".join(out), rt
        raise self.fail(e, f"call of `{'::'.join(e.path)}` is outside the subset (not in the target's table of crate functions)")

    # ---- function bodies (tail position: return / panic allowed)
    def diverges(self, b):
        """every path through block b leaves the function"""
        for s in b.stmts:
            if s.kind == "semi" and self.leaves(s.e): return True
        return b.tail is not None and self.leaves(b.tail)

    def leaves(self, e):
        if e.kind in ("return", "panic"): return True
        if e.kind == "if": return e.el is not None and self.leaves_blk(e.th) and self.leaves_blk(e.el)
        if e.kind == "block": return self.diverges(e)
        return False

    def leaves_blk(self, b): return self.diverges(b) if b.kind == "block" else self.leaves(b)

    def none(self):
        return "false" if self.mode == "guard" else "None"

    def wrap(self, e, env):
        """a normal result"""
        if self.mode == "guard": return "true"
        core = self.strip(e)
        if self.mode == "moment":
            if core.kind == "path" and core.segs[-2:] == ["f64", "INFINITY"]: return "PInf"
            if core.kind == "path" and core.segs[-2:] == ["f64", "NAN"]: return "Undef"
        if core.kind == "struct":
            if core.path[-1] not in ("Self", self.owner): raise self.fail(core, "constructor of another type")
            fields = self.m.structs.get(self.owner)
            if fields is None: raise self.fail(core, f"struct `{self.owner}` not found")
            given = dict(core.fields); vals = []
            for f, ty in fields:
                if f not in given: raise self.fail(core, f"field `{f}` missing")
                if ty == "f64" or ty in INT_TYPES:
                    s, t = self.expr(given[f], env)
                    if t != self.ty_of_rust(ty): raise self.fail(given[f], "field value of the wrong type")
                    vals.append(s)
                else:
                    raise self.fail(given[f], f"field `{f}` of non-numeric type `{ty}` (its initialiser may panic) is outside the subset")
            s = "(" + ", ".join(vals) + ")" if len(vals) != 1 else vals[0]
            self.ret_type = "struct"
        else:
            s, t = self.expr(e, env)
            if self.ret_type is None: self.ret_type = t
            elif self.ret_type != t: raise self.fail(e, "results of different types")
        if self.mode == "moment": s = f"Fin ({s})"
        if self.partial: s = f"Some ({s})"
        return s

    def tail_expr(self, e, env):
        k = e.kind
        if k == "paren": return self.tail_expr(e.e, env)
        if k == "return": return self.tail_expr(e.e, env)
        if k == "panic": return self.none()
        if k == "block": return self.tail_block(e.stmts, e.tail, env, e)
        if k == "if":
            c = self.cond(e.cond, env)
            if e.el is None: raise self.fail(e, "`if` without `else` in result position")
            a = self.tail_block(e.th.stmts, e.th.tail, env, e.th)
            b = self.tail_block(e.el.stmts, e.el.tail, env, e.el) if e.el.kind == "block" else self.tail_expr(e.el, env)
            return f"if {c} then {a} else {b}"
        return self.wrap(e, env)

    def tail_block(self, stmts, tail, env, where):
        env = dict(env)
        for idx, s in enumerate(stmts):
            rest = stmts[idx + 1:]
            if s.kind == "let" and s.mut:
                return self.fold_loop(s, rest, tail, env, where)
            if s.kind == "let" and self.strip(s.e).kind == "loop":
                self.rejection_loop(s, env)
                return self.tail_block(rest, tail, env, where)
            if s.kind == "let":
                return self.let(s, env) + self.tail_block(rest, tail, env, where)
            if s.kind in ("for", "opassign"):
                raise self.fail(s, "loops / mutation are only supported as `let mut acc = init; for (idx, val) in ARRAY.iter().enumerate() { acc += expr; }`")
            e = s.e
            if e.kind == "assert":
                c = self.cond(e.cond, env)
                return f"if {c} then {self.tail_block(rest, tail, env, where)} else {self.none()}"
            if e.kind in ("panic", "return"):
                return self.tail_expr(e, env)
            if e.kind == "if":
                c = self.cond(e.cond, env)
                branches = [e.th] + ([e.el] if e.el is not None else [])
                for br in branches:
                    if br.kind == "block" and not self.diverges(br) and (br.stmts or br.tail is not None):
                        raise self.fail(br, "a branch of a statement-`if` must leave the function (return / panic) or be empty")
                cont = None

                def k():
                    nonlocal cont
                    if cont is None: cont = self.tail_block(rest, tail, env, where)
                    return cont
                def branch(br):
                    if br is None: return k()
                    if br.kind == "if":
                        c2 = self.cond(br.cond, env)
                        if br.th.kind == "block" and not self.diverges(br.th) and (br.th.stmts or br.th.tail is not None):
                            raise self.fail(br.th, "a branch of a statement-`if` must leave the function (return / panic) or be empty")
                        return f"if {c2} then {branch(br.th)} else {branch(br.el)}"
                    if self.diverges(br): return self.tail_block(br.stmts, br.tail, env, br)
                    return k()
                return f"if {c} then {branch(e.th)} else {branch(e.el)}"
            raise self.fail(s, "expression statement without effect on the result is outside the subset")
        if tail is None: raise self.fail(where, "the function can end without a value")
        return self.tail_expr(tail, env)

    def rejection_loop(self, s, env):
        """`let u = loop { let v = DRAW; if cond(v) { break v; } };` with DRAW one of the target's random draws:
           u becomes an extra parameter of the function (the accepted draw) and cond an extra definition `<fn>_accept`."""
        bad = "a loop is only supported as `let u = loop { let v = <draw>; if cond { break v; } };`"
        lp = self.strip(s.e); b = lp.body
        items = list(b.stmts) + ([N("semi", b.tail.pos, b.tail.end, e=b.tail)] if b.tail is not None else [])
        if s.ty is not None or len(items) != 2 or items[0].kind != "let" or items[0].mut \
           or items[1].kind != "semi" or items[1].e.kind != "if": raise self.fail(lp, bad)
        dl, cf = items[0], items[1].e
        draw = " ".join(self.src.text[dl.e.pos:dl.e.end].split())
        if draw not in self.cfg.draws: raise self.fail(dl.e, "not one of the target's random draws " + repr(self.cfg.draws))
        th = cf.th
        brk = th.stmts[0].e if (len(th.stmts) == 1 and th.tail is None and th.stmts[0].kind == "semi") else (th.tail if not th.stmts else None)
        if cf.el is not None or brk is None or brk.kind != "break": raise self.fail(cf, bad)
        bv = self.strip(brk.e)
        if bv.kind != "path" or bv.segs != [dl.name]: raise self.fail(brk, bad)
        if self.accept is not None: raise self.fail(lp, "second rejection loop in one function")
        v = self.ident(dl.name, env, dl.name)
        envc = dict(env); envc[dl.name] = (v, "f")
        cond = self.cond(cf.cond, envc)
        self.accept = (v, cond, draw)
        u = self.ident(s.name, env, s.name)
        env[s.name] = (u, "f")
        self.extra_binders.append((u, "f"))

    def fold_loop(self, s, rest, tail, env, where):
        """`let mut acc = init; for (idx, val) in ARRAY.iter().enumerate() { acc += expr; }` followed by code that only
           reads acc  ->  let acc := rs_fold_enum (fun acc idx val => add O acc expr) ARRAY init in .."""
        bad = "mutable state is only supported as `let mut acc = init; for (idx, val) in ARRAY.iter().enumerate() { acc += expr; }`"
        if not rest or rest[0].kind != "for": raise self.fail(s, bad)
        lp = rest[0]
        it = lp.iter
        ok = (it.kind == "mcall" and it.name == "enumerate" and not it.args and it.recv.kind == "mcall" and it.recv.name == "iter"
              and not it.recv.args and it.recv.recv.kind == "path" and len(it.recv.recv.segs) == 1 and len(lp.pat) == 2)
        if not ok: raise self.fail(lp, bad)
        arr = it.recv.recv.segs[0]
        if arr not in self.cfg.arrays: raise self.fail(it, f"array `{arr}` is not in the target's table of constant arrays")
        lst, elt_ty, render = self.cfg.arrays[arr]
        b = lp.body
        if b.tail is not None or len(b.stmts) != 1 or b.stmts[0].kind != "opassign": raise self.fail(lp.body, bad)
        st = b.stmts[0]
        tgt = self.strip(st.target)
        if tgt.kind != "path" or tgt.segs != [s.name] or st.op != "+": raise self.fail(st, bad)
        for later in rest[1:]:
            if later.kind in ("for", "opassign"): raise self.fail(later, "the accumulator may only be read after its loop")
        init, ti = self.expr(s.e, env)
        if ti != "f": raise self.fail(s, "accumulator must be f64")
        acc = self.ident(s.name, env, s.name)
        idx = self.ident(lp.pat[0], dict(env, **{s.name: (acc, "f")}), lp.pat[0])
        val = self.ident(lp.pat[1], dict(env, **{s.name: (acc, "f"), lp.pat[0]: (idx, "i")}), lp.pat[1])
        env_l = dict(env); env_l[s.name] = (acc, "f"); env_l[lp.pat[0]] = (f"Z.of_nat {idx}", "i"); env_l[lp.pat[1]] = (render.format(v=val), "f")
        term, tt = self.expr(st.e, env_l)
        if tt != "f": raise self.fail(st.e, "summand must be f64")
        env2 = dict(env); env2[s.name] = (acc, "f")
        head = f"let {acc} := rs_fold_enum (fun ({acc} : T) ({idx} : nat) ({val} : {elt_ty}) => add O ({acc}) ({term})) {lst} ({init}) in "
        return head + self.tail_block(rest[1:], tail, env2, where)

    @staticmethod
    def has_panic(n):
        if isinstance(n, N):
            if n.kind in ("assert", "panic"): return True
            return any(Translator.has_panic(v) for k, v in n.__dict__.items() if k not in ("kind", "pos", "end"))
        if isinstance(n, (list, tuple)): return any(Translator.has_panic(v) for v in n)
        return False

    def function(self, owner, name, coq_name, mode="plain", macro=None, fields=None):
        """translate `fn name` of `impl .. owner` (owner None: module level) to a closed Gallina definition.
           mode: 'plain' | 'moment' | 'guard' (a bool: true iff none of the function's own assert!/panic! fires; the
           value the function then computes is NOT looked at, e.g. a constructor's struct literal).  Returns Translated."""
        self.owner, self.mode, self.used_calls, self.ret_type = owner, mode, [], None
        self.accept, self.extra_binders = None, []
        fn = self.m.fn(owner, name, macro)
        self.partial = self.has_panic(fn.body) and mode != "guard"
        env, binders = {}, []
        if fn.has_self:
            st = self.m.structs.get(owner)
            if st is None: raise self.fail(fn, f"struct `{owner}` not found in this file")
            for f, ty in st:
                if ty == "f64" or ty in INT_TYPES:
                    t = self.ty_of_rust(ty); nm = self.ident(f)
                    env["self." + f] = (nm, t); binders.append((nm, t))
        for p, ty, tok in fn.params:
            t = self.ty_of_rust(ty, tok); nm = self.ident(p, env, p)
            env[p] = (nm, t); binders.append((nm, t))
        body = self.tail_block(fn.body.stmts, fn.body.tail, env, fn.body)
        if fn.ret is not None and self.ret_type != "struct" and mode != "guard":
            rt = fn.ret.replace(" ", "")
            if not ((rt.startswith("Self::") and (owner, rt[6:]) not in self.m.assoc) or rt in self.cfg.param_types):
                if self.ty_of_rust(rt, fn) != self.ret_type: raise self.fail(fn, "declared result type differs from the inferred one")
        tys = {"f": "T", "i": "Z", "b": "bool"}
        callb = []
        for cq, argt, rt in list(self.cfg.calls.values()) + list(self.cfg.self_calls.values()):
            if cq in self.used_calls and cq not in [c for c, _ in callb]:
                callb.append((cq, " -> ".join(tys[a] for a in list(argt) + [rt])))
        pre = "{T : Type} (O : Ops T)" + "".join(f" ({c} : {ty})" for c, ty in callb)
        sig = pre + "".join(f" ({b} : {tys[t]})" for b, t in binders + self.extra_binders)
        text = f"Definition {coq_name} {sig} :=\n  {body}."
        if self.accept is not None:
            v, cond, draw = self.accept
            text = (f"(* `{name}` draws `{draw}` until the draw satisfies {coq_name}_accept; the accepted draw is the last argument of {coq_name} *)\n"
                    f"Definition {coq_name}_accept {pre}" + "".join(f" ({b} : {tys[t]})" for b, t in binders) + f" ({v} : T) : bool :=\n  {cond}.\n" + text)
        return Translated(coq_name, text, sig, mode, list(self.used_calls), list(self.notes))


PRELUDE = """From Coq Require Import ZArith QArith Floats List Bool.
From Compute Require Import Base.Ops Base.RsExpr.
Import ListNotations.
"""


def header(tool, sources):
    return (f"(* GENERATED by {tool} (expression translator tools/rsexpr.py) from {', '.join(sources)}. Do not edit.\n"
            "   Each definition is the body of the Rust function of the same name, operation for operation. *)\n" + PRELUDE)


# ----------------------------------------------------------------------------------------------- self-test
_POS = [   # (Rust, expected Gallina body): precedence, associativity, literal rule, comparisons, casts, early return
    ("fn f(x: f64, y: f64) -> f64 { -x.powi(2) / (2. * y) }", "div O (neg O (powi O (x) (2%Z))) (mul O (two O) (y))"),
    ("fn f(a: f64, b: f64, c: f64) -> f64 { a - b - c }", "sub O (sub O (a) (b)) (c)"),
    ("fn f(a: f64, b: f64, c: f64) -> f64 { a / b * c }", "mul O (div O (a) (b)) (c)"),
    ("fn f(a: f64, b: f64, c: f64) -> f64 { a + b * c }", "add O (a) (mul O (b) (c))"),
    ("fn f(a: f64, b: f64) -> f64 { -a * b }", "mul O (neg O (a)) (b)"),
    ("fn f(a: f64, b: f64) -> f64 { -0.5 * (a - b) }", "mul O (neg O (ofQ O (1 # 2))) (sub O (a) (b))"),
    ("fn f(n: u64) -> f64 { n as f64 / 2. }", "div O (ofZ O (n)) (two O)"),
    ("fn f(n: u64, k: u64) -> f64 { (n - k + 1) as f64 }", "ofZ O (Z.add (Z.sub (n) (k)) (1%Z))"),
    ("fn f(x: f64) -> f64 { 12. * x + 1e-3 + 0. + 1.0 + 2_f64 }", "add O (add O (add O (add O (mul O (ofZ O 12) (x)) (ofQ O (1 # 1000))) (zero O)) (one O)) (two O)"),
    ("fn f(x: f64, y: f64) -> f64 { if x > y { return 0.; } x }", "if ltb O (y) (x) then zero O else x"),
    ("fn f(x: f64, y: f64) -> f64 { if x >= y || !(x == y) && x != y { x } else { y } }",
     "if orb (leb O (y) (x)) (andb (negb (eqb O (x) (y))) (negb (eqb O (x) (y)))) then x else y"),
    ("fn f(x: f64) -> f64 { assert!(x > 0., \"msg {}\", x); x.ln() }", "if ltb O (zero O) (x) then Some (f1 O Ln (x)) else None"),
    ("fn f(x: f64) -> f64 { 2_f64.powf(x) + x.powf(2.) }", "add O (f1 O Exp2 (x)) (f2 O Pow (x) (two O))"),
    ("fn f(x: f64, y: f64) -> f64 { x.max(y).min(1.) }", "fmin O (fmax O (x) (y)) (one O)"),
    ("fn f(k: u64) -> f64 { (1..=k).map(|i| (i as f64).ln()).sum() }",
     "rs_iter_sum O (map (fun i : Z => f1 O Ln (ofZ O (i))) (rs_range (1%Z) (k)))"),
]
_POS_SELF = [   # a local never captures the binder of a field it shadows by name
    ("struct S { alpha: f64 } impl S { fn g(&self, x: f64) -> f64 { let alpha = x + 1.; alpha * self.alpha } }",
     "let alpha' := add O (x) (one O) in mul O (alpha') (alpha)"),
    ("struct S { x: f64 } impl S { fn g(&self, x: f64) -> f64 { x * self.x } }", "mul O (x') (x)"),
]
_NEG = [   # (Rust, fragment the error must mention): everything outside the subset stops the translator, with its span
    ("fn f(x: f64) -> f64 { let mut y = x; y += 1.; y }", "mutable state"),
    ("fn f(x: f64) -> f64 { let y = x; y = 2.; y }", "assignment"),
    ("fn f(x: f64) -> f64 { x.tanh2() }", "method `.tanh2`"),
    ("fn f(x: &[f64]) -> f64 { x[0] }", "outside the subset"),
    ("fn f(x: f64) -> f64 { while x > 0. { } x }", "`while`"),
    ("fn f(x: f64) -> f64 { foo(x) }", "call of `foo`"),
    ("fn f(x: f64, n: u64) -> f64 { x + n }", "different or non-numeric types"),
    ("fn f(x: f64) -> f64 { x % 2. }", "operator `%`"),
    ("fn f(x: f64) -> f64 { match x { _ => 1. } }", "`match`"),
    ("fn f(x: f64) -> f64 { f64::NAN }", "infinity / NaN"),
    ("fn f(x: f64) -> u64 { x as u64 }", "float-to-integer cast"),
    ("fn f(x: f64) -> f64 { if x > 0. { let y = x; } x }", "must leave the function"),
    ("fn f(x: f64) -> f64 { unsafe { x } }", "`unsafe`"),
    ("fn f(x: f64) -> f64 { (0..3).map(|i| x).sum() }", "half-open range"),
    ("fn f(x: f64) -> f64 { alea::f64() * x }", "call of `alea::f64`"),
    ("fn f(x: f64) -> f64 { 1 + x }", "different or non-numeric types"),
    ("fn f(x: f64) -> f64 { x.powi(2.) }", "powi exponent"),
]


def selftest():
    """cheap regression test of the translator itself; every target runs it before translating"""
    for rust, want in _POS:
        m = Module("selftest.rs", rust)
        got = Translator(m, Config()).function(None, "f", "f").text.split(":=\n  ", 1)[1].rstrip(".")
        if got != want: raise Unsupported(f"rsexpr self-test: `{rust}` rendered as `{got}`, expected `{want}`")
    for rust, want in _POS_SELF:
        m = Module("selftest.rs", rust)
        got = Translator(m, Config()).function("S", "g", "g").text.split(":=\n  ", 1)[1].rstrip(".")
        if got != want: raise Unsupported(f"rsexpr self-test: `{rust}` rendered as `{got}`, expected `{want}`")
    for rust, frag in _NEG:
        try:
            m = Module("selftest.rs", rust)
            Translator(m, Config()).function(None, "f", "f")
        except Unsupported as ex:
            if frag not in str(ex) or not re.search(r"selftest\.rs:\d+:\d+", str(ex)):
                raise Unsupported(f"rsexpr self-test: `{rust}` was refused with an unexpected message: {ex}")
            continue
        raise Unsupported(f"rsexpr self-test: `{rust}` is outside the subset but was translated")
    return len(_POS) + len(_POS_SELF) + len(_NEG)



if __name__ == "__main__":
    # debugging aid:  rsexpr.py file.rs [Owner] fn [moment]
    a = sys.argv[1:]
    if a == ["--selftest"]:
        print("self-test ok:", selftest(), "cases"); sys.exit(0)
    m = Module(a[0])
    owner, name = (a[1], a[2]) if len(a) > 2 and a[2] != "moment" else (None, a[1])
    tr = Translator(m, Config(calls={"gamma": ("Gam", ["f"], "f"), "beta": ("Bet", ["f", "f"], "f"), "erf": ("Erf", ["f"], "f")}))
    print(tr.function(owner, name, (owner + "_" if owner else "") + name, mode="moment" if a[-1] == "moment" else "plain").text)
