#!/usr/bin/env python3
"""Tie A expression translator: pure scalar Rust function bodies (class Translator) and the simple loops of the crate's
numerical routines (class LoopTranslator, described at the end) -> Gallina terms over `Ops T` (Base/Ops.v).

It parses a small subset of Rust and RAISES `Unsupported` (with file:line:col and the offending text) on
anything else; it never guesses.  The subset:

  items   `struct S { f: ty, .. }`, `const N: f64 = expr;`, `fn f(params) -> ty { block }` at module level, inside
          `impl [Trait for] S { .. }` and inside `macro_rules! m { (..) => { impl .. { fn .. } } }`
  block   `let x [: ty] = expr;` (no `mut`, no patterns) | `assert!(cond [, msg..]);` | `panic!(..)[;]`
          | `if cond { block } [else if .. | else { block }]` | `return [expr];` | tail expression
          | `let u = loop { let v = DRAW; if cond { break v; } };` with DRAW one of the target's random draws (a rejection
            loop: the accepted draw u becomes a parameter, cond a separate definition `<fn>_accept`)
          | `let mut acc = init; for (idx, val) in ARRAY.iter().enumerate() { acc += expr; }` with ARRAY a constant array
            of the target's table (a left fold with the running index; acc only read afterwards)
          (a branch of a statement-`if` either leaves the function (return / panic) or binds nothing)
  expr    f64 and integer literals (`2.`, `1e-3`, `0.5`, `2_f64`, `1`, `1u64`), variables, `self.f`,
          unary `-` `!` `&` `*` (references are transparent), `+ - * /` (f64 and integers), comparisons, `&& || & |`
          on bool, `e as f64|usize|u64|u32|i64|i32` (integer -> integer is the identity on Z: wrap-around is NOT
          modelled; integer -> f64 is `ofZ`), `(a ..= b).contains(&x)`, `(a ..= b).map(|i| e).sum()`,
          value `if`, `{ block }`, `Self { f, .. }` / `S { f, .. }` as the tail of a constructor (tuple of the
          numeric fields), calls of crate functions named in the target's table, `self.m()` for a translated
          argument-less method of the same type (inlined), constants `PI`, `std::f64::consts::PI`, `f64::EPSILON`,
          module `const`s (inlined, or mapped by the target's table), `f64::INFINITY` (rs_f64_infinity O = 1/0: +inf on
          binary64); `f64::NAN` only as a whole result in `moment` mode
  methods `.exp() .ln() .sqrt() .abs() .powi(k) .powf(y) .ln_1p() .exp_m1() .sin() .cos() .floor() .max(y) .min(y)`
          on f64 (also written `f64::min(a, b)` / `f64::max(a, b)`); `.min(y) .max(y)` on integers

Rendering (same operation order as the source, fully parenthesised prefix applications):
  a + b -> add O a b, ... ; -a -> neg O a ; a < b -> ltb O a b ; a > b -> ltb O b a ; a <= b -> leb O a b ;
  a >= b -> leb O b a ; a == b -> eqb O a b ; libm through f1 / f2 ; x.powi(k) -> powi O x k (the derived
  square-and-multiply) ; x.max(y) -> fmax O x y ; integers live in Z (Z.add, Z.ltb, Z.min ..).
  f64 literals: 0 -> zero O, 1 -> one O, 2 -> two O, another integer n -> ofZ O n, a short decimal p/q (reduced,
  p and q below 2^53: the quotient of the two exactly converted integers rounds to the literal's binary64) ->
  ofQ O (p # q), a long decimal -> ofLit O (exact rational, binary64 as parsed).
  `(a ..= b)` -> rs_range a b ; `.map(|i| e).sum()` -> rs_iter_sum O (map (fun i : Z => e) ..)  (Iterator::sum::<f64>()
  folds from -0.0).  A panic is `None`, a normal result `Some ..` (functions without assert!/panic! are total:
  no option).  `moment` mode renders the result as Fin e | PInf (f64::INFINITY) | Undef (f64::NAN).  `guard` mode renders only
  the function's own panics: true iff no assert!/panic! of the body fires (the value computed afterwards is not
  translated; used for constructors whose struct literal builds cached sub-samplers).
Documented rewriting rule (follows what rustc emits, as the hand models record):
  R1  `2_f64.powf(e)` / `2f64.powf(e)` / `(2.0_f64).powf(e)`  ->  f1 O Exp2 e      (rustc/LLVM turns pow(2, x) into exp2(x))

STATEMENT LEVEL (class LoopTranslator; the class Translator above is unchanged and still refuses all of this).
The simple loops the crate's numerical routines are made of, rendered over lists (Base/RsExpr.v, characterised in
Proofs/RsExprLemmas.v); everything else still raises with file:line:col:
  types   f64 -> T ; usize / u64 / .. and i32 / i64 / .. -> Z ; bool ; `&[f64]`, `Vec<f64>`, `[f64; N]` (and `Vector` by the
          target's table) -> list T ; tuples ; `Option<..>` parameters ; a generic `F: Fn(f64) -> f64` -> T -> T
  state   `let mut x = e;`, `let (a, mut b, _) = e;`, `x = e;`, `x += e;` (`-= *= /=`), `v[i] = e;`, `v[i] += e;`, `v.push(e);`,
          `v.extend(w);`, `v.reverse();`, `self.f = e;` (a `&mut self` method returns its fields): each assignment REBINDS
          the variable (`let x := .. in`); an `if` whose branches only assign is `let '(x, y) := if c then .. else .. in`,
          otherwise the rest of the block continues inside every branch that does not leave
  loops   `for pat in ITER { body }` with ITER = `a..b` | `a..=b` | `x.iter()` | `x` | `.zip(..)` | `.enumerate()` | `.rev()` |
          `.take(n)` | `.skip(n)` | `.map(|p| e)`: a fold over the list of ITER whose state is the tuple of the variables the
          body assigns:  fold_left (total body) | rs_fold_opt (the body can panic) | rs_loop with rs_next / rs_break /
          rs_return / rs_panic (the body has `break` / `return`; `continue` ends a pass in all three)
          `while i < b { ..; i += 1; }` with an integer counter only changed by the last statement, a bound the body does
          not change and no `continue`: rule R2, the fold over `i..b` with i kept in the state
  chains  `.iter() .into_iter() .cloned() .copied() .collect() .to_vec() .clone()` (identity on lists), `.map(|p| e)`
          (map | rs_map_opt), `.sum()` (rs_iter_sum: from -0.0), `.product()`, `.fold(init, |a, p| e)` / `.fold(init, f64::max)`,
          `.len()` (rs_len), closures with tuple patterns and block bodies, `f64::min/max(a, b)`, `t.0`, `f64::NAN / MAX / MIN /
          INFINITY / NEG_INFINITY`, `vec![c; n]` / `Vector::ones(n)` / `zeros(n)` (rs_vec_alloc: the capacity check of
          8-byte elements), `Vec::with_capacity(n)` / `Vec::new()` ([]), `Vector * f64` (element-wise)
  panics  None: `assert!`, `assert_eq!`, `assert_ne!`, `panic!`, `x[i]` (rs_get), `&x[a..b]` / `[a..]` / `[..b]` (rs_slice*),
          `v[i] = e` (rs_set), integer `/` and `%` by a non-literal (rs_idiv / rs_irem), calls of functions that can panic.
          A sub-expression that can panic is bound first (`let* g := rs_get x i in ..`), in evaluation order; under `&&` / `||`,
          in a value `if` and in a closure it stays inside that operand / branch / closure.  A function none of whose
          constructs can panic is total (no option).
  usize   `a - b` on unsigned integers is rs_usub a b: the release build's wrap-around modulo 2^64 (a debug build panics
          there); `+`, `*` and integer casts do not wrap (lengths are below 2^64)
  items   generics with `where F: Fn(..) -> ..`, `#[cfg(feature = "blas" | "lapack")] { .. }` blocks are not compiled in the
          verified build and are skipped unread, `#[cfg(not(feature = ..))] { .. }` blocks are the code; `match` is parsed as
          an opaque node that every translator refuses, so that `fragment(..)` can translate the statements around it
  calls   cfg.calls: abstract parameters (result type ('opt', t) = can panic); cfg.defs: functions translated earlier
          (every translated function registers itself: `mean(x)` -> `src_mean O sum_ x`, `self.m(a)` with the fields read)
  R2  `let mut i = a; while i < b { ..; i += 1; }`  ->  fold over rs_range_excl i b, the loop variable shadowing the state's i
THIRD ROUND (definitions in Base/RsExprMore.v; everything below is opt-in through the target's Config, so that the files of the
earlier targets regenerate byte for byte):
  macros  `fn $op(..)` and `recv.$m(..)` inside a macro transcriber: the function is looked up under the name `$`, the method named
          by a metavariable is an abstract parameter (cfg.meta_methods: `$m` -> (parameter, receiver type, [arg types], result
          type)), the receiver passed as a value; cfg.owner_structs gives the fields of a `$selftype` declared in another file
  methods `x.m(args)` for a method translated earlier (cfg.defs `self.m`) applied to a struct-typed variable, to a struct-valued
          expression (its fields are bound first) or, for a newtype (cfg.newtype_self: `struct Vector { v: Vec<f64> }`, `self` = the
          wrapped list), to the wrapped value; `x.m(args);` / `self.m(args);` for a `&mut self` method translated earlier with
          result='fields' REBINDS the fields (also as the last expression of a `&mut self` method returning `&mut Self`); such a
          call inside an expression is refused
  values  `S { f: e, .. }` of the function's own struct with every field given, as a value (cfg.struct_literals): the tuple of the
          fields in declaration order; `let v: Vec<Vec<f64>> = Vec::with_capacity(n)` (the annotation types the empty list);
          `x.split_at(i)` (rs_split_at: panics unless i <= len), `x.split_first()` (rs_split_first: an Option)
  match   (cfg.enum_pair_match) the ONE form read: `match s { [p, q] => .., _ => .. }` ending a block, s a pair `[a, b]` of values of one
          enum of the file, p, q = `_` | `Enum::Variant` | `Enum::Variant(ident)` (no guards, no other patterns) -> a Gallina `match` on the pair
          with the same patterns in the same order (first match wins in both languages) over `rs_<Enum>` (enum_decl: constructors
          `rs_<Enum>_<Variant>`, a usize payload in Z); each arm is rendered like the branch of an `if` ending the block
  $op     `a $op b` (cfg.meta_ops: `$op` -> {(type a, type b): (parameter, result type)}), `$f(args)` (cfg.calls `$f`): abstract parameters; the
          operator is refused next to another binary operator (its precedence is unknown)
  windows `tr.window(S, "index_mut")` reads `fn index_mut(&mut self, i: usize) -> &mut [f64] { assert!(c); &mut self.f[lo..hi] }` as a window of the
          field f; then `x[i][j] = e`, `x[i].iter_mut().for_each(|a| *a = e)` and `x[i].iter_mut().zip(y).for_each(|(a, b)| *a = e)` (Parser.closure_assign)
          are: read the window (`if c then rs_slice f lo hi else None`), change it (rs_set | map / rs_map_opt | rs_zip_assign), write it back
          (rs_put_slice f lo w); `m[i]` for a struct-typed variable goes through the translated `Index<usize>::index`; `m.clone()` of a struct is m;
          `[a, b] == [c, d]` on integer arrays (cfg.int_list_eq) is rs_zlist_eqb; a generic `F: Fn(f64) -> f64` argument may panic
          (cfg.partial_fn_params: T -> option T)
  R5  (cfg.wrap_i64_cast)  `x as i64` of an unsigned x  ->  rs_as_i64 x, the two's-complement reinterpretation
  R6  (cfg.draw_methods: method -> (parameter, sampler object type, [arg types], result type))  a random draw `obj.sample()` ->
      `let* (d, rng_) := sample_ obj rng_ in ..`: the generator state rng_ : St_ (an abstract type, a parameter of the generated
      function) is threaded through the statements in execution order, belongs to the state of every loop / merged `if` whose body
      draws, and is returned with the result; None = the draw does not return.  A draw inside a closure, a value `if` or an
      `&&` / `||` operand is refused (the order of the draws would not be the statement order).
FOURTH ROUND (definitions in Base/RsExprFour.v; opt-in through the target's Config / Parser, so that the files of the earlier targets
regenerate byte for byte):
  floats  (cfg.float_classify) `x.is_infinite()` -> rs_is_infinite O x = (x == inf) | (x == -inf), as core writes it
  newtype (cfg.newtype_index) `self[i]` in a method of a newtype around Vec<f64> (cfg.newtype_self) goes through Deref: rs_get self_ i
  chains  (cfg.iter_all) `it.all(|p| c)` -> forallb, for a closure to bool that cannot panic; (cfg.option_as_ref) `opt.as_ref()` is opt
  calls   (cfg.field_methods: (field, method) -> key of cfg.calls) `self.f.m(args)` for a field f the translator does not model: an abstract
          parameter (an argument-less pure method is a value); (cfg.abstract_self_methods: m -> (parameter, [arg types], result type))
          `self.m(args)` for a method kept abstract: the parameter takes the receiver as a struct VALUE, then the arguments;
          (cfg.list_methods) `v.m(args)` on a list-typed receiver for a method of the list-like newtype kept abstract (`Vector::prod`)
  results `function(.., result="outparams")`: a function that works through its `&mut [f64]` parameters and returns nothing is rendered as
          the value of those parameters after the call (it is not registered in cfg.defs: a call of it from translated code stays refused)
  `?`     (Parser.try_op) `Result<T, &str>` is an option VALUE like `Result<T, String>`; `e?` on an Option / Result value is bound in
          evaluation order like a hoisted sub-expression, and `None` / `Err(_)` RETURNS `None` from the function (an early return, not a
          panic): `match e with Some q => .. | None => <return None> end`; refused inside a closure, a value block / `if`, an `&&` / `||` operand
"""
import os, re, sys
from fractions import Fraction


class Unsupported(Exception):
    pass


# ----------------------------------------------------------------------------------------------- lexer
def blank_comments(src):
    """comments replaced by blanks (same offsets, newlines kept)"""
    out, i, n = [], 0, len(src)
    while i < n:
        if src.startswith("//", i):
            j = src.find("\n", i)
            j = n if j < 0 else j
            out.append(" " * (j - i)); i = j
        elif src.startswith("/*", i):
            j = src.find("*/", i)
            if j < 0: raise Unsupported("unterminated block comment")
            out.append(re.sub(r"[^\n]", " ", src[i:j + 2])); i = j + 2
        elif src[i] == '"':
            m = re.compile(r'"(?:[^"\\]|\\.)*"', re.S).match(src, i)
            if not m: raise Unsupported("unterminated string")
            out.append(m.group(0)); i = m.end()
        else:
            out.append(src[i]); i += 1
    return "".join(out)


PUNCT = ["..=", "<<=", "...", "::", "->", "=>", "<=", ">=", "==", "!=", "||", "&&", "..", "+=", "-=", "*=", "/=",
         "<<"] + list("()[]{},;.&=:<>!+-*/%|#'$?^@~")
INT_SUFFIX = ("usize", "isize", "u64", "i64", "u32", "i32", "u16", "i16", "u8", "i8", "u128", "i128")
NUM = re.compile(r"\d[\d_]*")


class Tok:
    __slots__ = ("kind", "text", "pos", "end", "suffix")

    def __init__(self, kind, text, pos, end, suffix=""):
        self.kind, self.text, self.pos, self.end, self.suffix = kind, text, pos, end, suffix

    def __repr__(self): return f"{self.kind}:{self.text}"


class Source:
    def __init__(self, path, text=None):
        self.path = path
        self.raw = open(path).read() if text is None else text
        self.text = blank_comments(self.raw)
        self.toks = self._lex()

    def where(self, pos):
        line = self.text.count("\n", 0, pos) + 1
        col = pos - (self.text.rfind("\n", 0, pos) + 1) + 1
        return f"{os.path.basename(self.path)}:{line}:{col}"

    def err(self, pos, end, msg):
        snippet = " ".join(self.raw[pos:max(end, pos + 1)].split())
        if len(snippet) > 90: snippet = snippet[:87] + "..."
        return Unsupported(f"{self.where(pos)}: {msg}: `{snippet}`")

    def _lex(self):
        s, i, n, toks = self.text, 0, len(self.text), []
        while i < n:
            c = s[i]
            if c.isspace(): i += 1; continue
            if c == '"':
                m = re.compile(r'"(?:[^"\\]|\\.)*"', re.S).match(s, i)
                toks.append(Tok("str", m.group(0), i, m.end())); i = m.end(); continue
            if c.isdigit():
                mh = re.compile(r"0[xob][0-9a-fA-F_]+(?:_?(?:%s))?\b" % "|".join(INT_SUFFIX)).match(s, i)
                if mh:
                    body = re.sub(r"_?(?:%s)$" % "|".join(INT_SUFFIX), "", mh.group(0)).replace("_", "")
                    toks.append(Tok("int", str(int(body, 0)), i, mh.end())); i = mh.end(); continue
                m = NUM.match(s, i); j = m.end(); isf = False
                if j < n and s[j] == "." and not (j + 1 < n and (s[j + 1] == "." or s[j + 1].isalpha() or s[j + 1] == "_")):
                    isf = True; j += 1
                    m2 = NUM.match(s, j)
                    if m2: j = m2.end()
                m3 = re.compile(r"[eE][+-]?\d+").match(s, j)
                if m3: isf = True; j = m3.end()
                body = s[i:j]; suffix = ""
                m4 = re.compile(r"_?(f64|f32|" + "|".join(INT_SUFFIX) + r")\b").match(s, j)
                if m4:
                    suffix = m4.group(1); j = m4.end()
                    if suffix in ("f64", "f32"): isf = True
                if j < n and (s[j].isalnum() or s[j] == "_"):
                    raise self.err(i, j + 1, "cannot tokenize number")
                toks.append(Tok("float" if isf else "int", body.replace("_", ""), i, j, suffix)); i = j; continue
            if c.isalpha() or c == "_":
                m = re.compile(r"[A-Za-z_][A-Za-z0-9_]*").match(s, i)
                toks.append(Tok("id", m.group(0), i, m.end())); i = m.end(); continue
            for p in PUNCT:
                if s.startswith(p, i):
                    toks.append(Tok("p", p, i, i + len(p))); i += len(p); break
            else:
                raise self.err(i, i + 1, "cannot tokenize")
        toks.append(Tok("eof", "", n, n))
        return toks


# ----------------------------------------------------------------------------------------------- AST
class N:
    """AST node: kind, fields, source span"""

    def __init__(self, kind, pos, end, **kw):
        self.kind, self.pos, self.end = kind, pos, end
        self.__dict__.update(kw)

    def __repr__(self):
        return f"N({self.kind}, " + ", ".join(f"{k}={v!r}" for k, v in self.__dict__.items() if k not in ("kind", "pos", "end")) + ")"


BINPREC = {"||": 1, "&&": 2, "==": 3, "!=": 3, "<": 3, ">": 3, "<=": 3, ">=": 3, "|": 4, "^": 5, "&": 6,
           "<<": 7, ">>": 7, "+": 8, "-": 8, "*": 9, "/": 9, "%": 9}
AS_PREC = 10


class TryOpt(str):
    """the operand of a `?` waiting in the list of hoisted sub-expressions: an Option / Result VALUE whose `None` / `Err(_)` is returned by the
       enclosing function (not a panic); `refuse` is the error to raise where an early return cannot be rendered"""
    refuse = None
    env = None
    where = None


class Parser:
    try_op = False      # (fourth round) `e?` is parsed only for a target that opts in
    closure_assign = False      # see parse_primary (closures)

    def __init__(self, src, lo=0, hi=None):
        self.src, self.t, self.i = src, src.toks, lo
        self.hi = len(src.toks) - 1 if hi is None else hi

    # -- token helpers
    def peek(self, k=0): return self.t[min(self.i + k, len(self.t) - 1)]
    def at(self, text, k=0):
        t = self.peek(k); return t.kind in ("p", "id") and t.text == text
    def next(self):
        t = self.t[self.i]; self.i += 1; return t
    def expect(self, text):
        t = self.peek()
        if not self.at(text): raise self.src.err(t.pos, t.end, f"expected `{text}`")
        return self.next()
    def fail(self, node_or_tok, msg):
        return self.src.err(node_or_tok.pos, node_or_tok.end, msg)

    # -- items
    def skip_balanced(self):
        """at an opening bracket: skip to after its partner"""
        pairs = {"(": ")", "[": "]", "{": "}"}
        t = self.next(); close = pairs[t.text]; depth = 1
        while depth:
            u = self.next()
            if u.kind == "eof": raise self.fail(t, "unbalanced bracket")
            if u.kind == "p" and u.text == t.text: depth += 1
            elif u.kind == "p" and u.text == close: depth -= 1

    def parse_type(self, stops):
        """type as text, up to one of `stops` at bracket depth 0"""
        start = self.peek().pos; depth = 0; parts = []
        while True:
            t = self.peek()
            if t.kind == "eof": raise self.fail(t, "unterminated type")
            if depth == 0 and t.kind in ("p", "id") and t.text in stops: break
            if t.kind == "p" and t.text in ("(", "[", "<"): depth += 1
            if t.kind == "p" and t.text in (")", "]", ">"):
                if depth == 0: break
                depth -= 1
            if parts and t.kind == "id" and self.t[self.i - 1].kind == "id": parts.append(" ")
            parts.append(t.text); self.next()
        return "".join(parts)

    def parse_fn(self):
        kw = self.expect("fn"); name = self.next()
        if name.kind == "p" and name.text == "$" and self.peek().kind == "id":
            # `fn $op(..)` inside a macro transcriber: the function is named by the metavariable
            mv = self.next(); name = Tok("id", "$" + mv.text, name.pos, mv.end)
        if name.kind != "id": raise self.fail(name, "function name expected")
        generics = []
        if self.at("<"):
            # `<F>` / `<T: Bound, U>`: the names are recorded, the bounds are read from the `where` clause or here as text
            lt = self.next(); depth = 1; cur = []
            while depth:
                u = self.next()
                if u.kind == "eof": raise self.fail(lt, "unterminated generics")
                if u.kind == "p" and u.text == "<": depth += 1
                elif u.kind == "p" and u.text == ">": depth -= 1
                elif u.kind == "p" and u.text == "->": pass
                if depth == 0: break
                if depth == 1 and u.kind == "p" and u.text == ",":
                    generics.append("".join(cur)); cur = []
                else: cur.append(u.text)
            if cur: generics.append("".join(cur))
        self.expect("(")
        params, has_self = [], False
        while not self.at(")"):
            if self.at("&") or self.at("self") or self.at("mut"):
                st = self.peek()
                while self.at("&") or self.at("mut"): self.next()
                if self.at("'"): self.next(); self.next()
                if not self.at("self"): raise self.fail(st, "unsupported parameter")
                self.next(); has_self = True
            else:
                p = self.next()
                if p.kind != "id": raise self.fail(p, "parameter name expected (patterns are outside the subset)")
                self.expect(":")
                params.append((p.text, self.parse_type({",", ")"}), p))
            if self.at(","): self.next()
        self.expect(")")
        ret = None
        if self.at("->"):
            self.next(); ret = self.parse_type({"{", "where"})
        where = ""
        if self.at("where"):
            self.next(); parts = []
            while not self.at("{"):
                u = self.next()
                if u.kind == "eof": raise self.fail(u, "function body expected")
                parts.append(u.text)
            where = "".join(parts)
        if not self.at("{"): raise self.fail(self.peek(), "function body expected")
        body = self.parse_block()
        return N("fn", kw.pos, body.end, name=name.text, params=params, has_self=has_self, ret=ret, body=body,
                 generics=generics, where=where)

    # -- blocks and statements
    def parse_pattern(self):
        """`name` | `mut name` | `_` | `&pat` | `(pat, ..)`  ->  ("var", name, mut) | ("wild",) | ("tup", [..])"""
        t = self.peek()
        if self.at("&"): self.next(); return self.parse_pattern()
        if self.at("("):
            self.next(); items = []
            while not self.at(")"):
                items.append(self.parse_pattern())
                if self.at(","): self.next()
                elif not self.at(")"): raise self.fail(self.peek(), "expected `,` or `)` in a pattern")
            self.next()
            return ("tup", items)
        mut = False
        if self.at("mut"): self.next(); mut = True
        v = self.next()
        if v.kind != "id": raise self.fail(v, "pattern: a name, `_` or a tuple of those expected")
        if self.at("(") or self.at("{") or self.at("::"): raise self.fail(v, "enum / struct patterns are outside the subset")
        if v.text == "_": return ("wild",)
        return ("var", v.text, mut)

    @staticmethod
    def pattern_names(pat):
        if pat[0] == "var": return [pat[1]]
        if pat[0] == "tup": return [n for q in pat[1] for n in Parser.pattern_names(q)]
        return []

    def parse_attr(self):
        """`#[..]` before a statement: returns 'keep' | 'drop' (cfg on the crate's only feature switch, `blas`, which the
           verified build leaves off) | 'ignore' (lints / inline hints)"""
        h = self.expect("#")
        if not self.at("["): raise self.fail(h, "attribute expected")
        start = self.i; self.skip_balanced()
        text = "".join(t.text for t in self.t[start + 1:self.i - 1])
        if text in ('cfg(feature="blas")', 'cfg(feature="lapack")'): return "drop"
        if text in ('cfg(not(feature="blas"))', 'cfg(not(feature="lapack"))'): return "keep"
        if text.startswith("cfg"): raise self.fail(h, "conditional compilation other than on the `blas` / `lapack` features is outside the subset")
        return "ignore"

    def parse_block(self):
        lb = self.expect("{"); stmts, tail = [], None
        while not self.at("}"):
            t = self.peek()
            if t.kind == "eof": raise self.fail(lb, "unterminated block")
            if self.at(";"): self.next(); continue
            if self.at("#"):
                what = self.parse_attr()
                if what == "ignore": continue
                if not self.at("{"): raise self.fail(self.peek(), "a `#[cfg(..)]` attribute is only supported on a block")
                if what == "drop": self.skip_balanced(); continue      # not compiled: not looked at
                blk = self.parse_block()
                # the kept block: its statements continue the enclosing block (a block that ends the enclosing one gives its value)
                if self.at("}"):
                    stmts.extend(blk.stmts); tail = blk.tail
                else:
                    if blk.tail is not None: raise self.fail(blk, "a `#[cfg]` block with a value in the middle of a block")
                    stmts.extend(blk.stmts)
                continue
            if self.at("let"):
                self.next()
                if self.at("(") or self.at("&"):
                    pat = self.parse_pattern(); nm_text, mut = None, False
                else:
                    mut = False
                    if self.at("mut"): self.next(); mut = True
                    nm = self.next()
                    if nm.kind != "id": raise self.fail(nm, "`let` with a pattern is outside the subset")
                    nm_text = nm.text
                    pat = ("wild",) if nm_text == "_" else ("var", nm_text, mut)
                ty = None
                if self.at(":"):
                    self.next(); ty = self.parse_type({"=", ";"})
                self.expect("=")
                e = self.parse_expr()
                semi = self.expect(";")
                stmts.append(N("let", t.pos, semi.end, name=nm_text, ty=ty, e=e, mut=mut, pattern=pat)); continue
            if t.kind == "id" and t.text == "for":
                self.next()
                pattern = self.parse_pattern()
                pat = self.pattern_names(pattern)
                self.expect("in")
                it = self.parse_expr(nostruct=True)
                body = self.parse_block()
                stmts.append(N("for", t.pos, body.end, pat=pat, pattern=pattern, iter=it, body=body)); continue
            if t.kind == "id" and t.text == "while":
                self.next()
                if self.at("let"): raise self.fail(self.peek(), "`while let` is outside the subset")
                c = self.parse_expr(nostruct=True)
                body = self.parse_block()
                stmts.append(N("while", t.pos, body.end, cond=c, body=body)); continue
            if t.kind == "id" and t.text == "unsafe" and self.at("{", 1):
                # the only `unsafe` in the subset: `unsafe { v.set_len(n); }` (one or more such calls), spliced as statements
                self.next(); blk = self.parse_block()
                ok = blk.tail is None and blk.stmts and all(x.kind == "semi" and x.e.kind == "mcall" and x.e.name == "set_len" and len(x.e.args) == 1
                                                           and x.e.recv.kind == "path" and len(x.e.recv.segs) == 1 for x in blk.stmts)
                if not ok: raise self.fail(t, "`unsafe` is outside the subset (only `unsafe { v.set_len(n); }` is read)")
                stmts.extend(blk.stmts); continue
            if t.kind == "id" and t.text in ("unsafe", "fn", "struct", "impl", "use", "const", "static"):
                raise self.fail(t, f"`{t.text}` is outside the subset")
            e = self.parse_expr(stmt=True)
            if self.peek().kind == "p" and self.peek().text in ("+=", "-=", "*=", "/="):
                op = self.next(); rhs = self.parse_expr(); semi = rhs if self.at("}") else self.expect(";")      # `{ ..; x += e }`: unit-valued tail
                stmts.append(N("opassign", e.pos, semi.end, op=op.text[0], target=e, e=rhs)); continue
            if self.at("="):
                self.next(); rhs = self.parse_expr(); semi = rhs if self.at("}") else self.expect(";")
                stmts.append(N("assign", e.pos, semi.end, target=e, e=rhs)); continue
            if self.at(";"):
                semi = self.next(); stmts.append(N("semi", e.pos, semi.end, e=e))
            elif self.at("}"):
                tail = e
            elif e.kind in ("if", "block", "iflet", "match"):
                stmts.append(N("semi", e.pos, e.end, e=e))
            else:
                raise self.fail(self.peek(), "expected `;` or `}`")
        rb = self.expect("}")
        return N("block", lb.pos, rb.end, stmts=stmts, tail=tail)

    # -- expressions
    def starts_expr(self):
        t = self.peek()
        if t.kind in ("float", "int", "id", "str"): return not (t.kind == "id" and t.text in ("as", "in", "else"))
        return t.kind == "p" and t.text in ("(", "-", "!", "&", "*", "|", "||", "[")

    def parse_expr(self, prec=0, nostruct=False, stmt=False):
        if prec == 0 and (self.at("..") or self.at("..=")):
            op = self.next(); hi = None
            if self.starts_expr() and not (nostruct and self.at("{")): hi = self.parse_expr(1, nostruct)
            return N("range", op.pos, hi.end if hi else op.end, lo=None, hi=hi, incl=(op.text == "..="))
        lhs = self.parse_unary(nostruct)
        if stmt and lhs.kind in ("if", "block", "iflet", "match") and not self.at("."):
            # expression statement ending in a block: not continued by a binary operator
            return lhs
        while True:
            t = self.peek()
            if t.kind == "id" and t.text == "as":
                if AS_PREC < prec: break
                self.next(); tp = self.peek(); ty = self.next()
                if ty.kind != "id": raise self.fail(tp, "cast target type expected")
                lhs = N("cast", lhs.pos, ty.end, e=lhs, ty=ty.text); continue
            if t.kind == "p" and t.text == "$" and self.peek(1).kind == "id" and not self.at("(", 2):
                # `a $op b` inside a macro transcriber: a binary operator named by a metavariable.  Its precedence is not known, so it
                # is only accepted between two operands that are not themselves binary expressions
                if prec > 9: break
                if lhs.kind == "bin": raise self.fail(t, "a macro metavariable operator next to another binary operator (its precedence is unknown)")
                self.next(); mv = self.next()
                rhs = self.parse_expr(AS_PREC, nostruct)
                nx = self.peek()
                if (nx.kind == "p" and nx.text in BINPREC) or (nx.kind == "p" and nx.text == "$"):
                    raise self.fail(nx, "a macro metavariable operator next to another binary operator (its precedence is unknown)")
                lhs = N("bin", lhs.pos, rhs.end, op="$" + mv.text, a=lhs, b=rhs); continue
            if t.kind != "p" or t.text not in BINPREC: break
            p = BINPREC[t.text]
            if p < prec: break
            if t.text in ("^", "<<", ">>"): raise self.fail(t, f"operator `{t.text}` is outside the subset")
            self.next()
            rhs = self.parse_expr(p + 1, nostruct)
            if p == 3 and self.peek().kind == "p" and BINPREC.get(self.peek().text) == 3:
                raise self.fail(self.peek(), "chained comparison")
            lhs = N("bin", lhs.pos, rhs.end, op=t.text, a=lhs, b=rhs)
        if prec == 0 and (self.at("..") or self.at("..=")):
            op = self.next(); hi = None
            if self.starts_expr() and not (nostruct and self.at("{")): hi = self.parse_expr(1, nostruct)
            if op.text == "..=" and hi is None: raise self.fail(op, "`a ..=` without an upper end")
            return N("range", lhs.pos, hi.end if hi else op.end, lo=lhs, hi=hi, incl=(op.text == "..="))
        return lhs

    def parse_unary(self, nostruct):
        t = self.peek()
        if t.kind == "p" and t.text in ("-", "!"):
            self.next(); e = self.parse_unary_operand(nostruct)
            return N("un", t.pos, e.end, op=t.text, e=e)
        if t.kind == "p" and t.text in ("&", "*"):
            self.next()
            if self.at("mut") and t.text == "&":
                self.next(); e = self.parse_unary_operand(nostruct)
                return N("refmut", t.pos, e.end, e=e)
            if self.at("mut"): raise self.fail(self.peek(), "`&mut` is outside the subset")
            e = self.parse_unary_operand(nostruct)
            return N("ref", t.pos, e.end, e=e)
        return self.parse_postfix(nostruct)

    def parse_unary_operand(self, nostruct):
        # unary operators bind tighter than `as` and every binary operator, looser than method calls
        return self.parse_unary(nostruct)

    def parse_postfix(self, nostruct):
        e = self.parse_primary(nostruct)
        while True:
            if self.at(".") :
                dot = self.next(); nm = self.next()
                if nm.kind == "int" and not nm.suffix:
                    e = N("tfield", e.pos, nm.end, recv=e, idx=int(nm.text)); continue
                if nm.kind in ("int", "float"): raise self.fail(nm, "nested tuple fields are outside the subset")
                if nm.kind == "p" and nm.text == "$" and self.peek().kind == "id" and self.at("(", 1):
                    # `recv.$method(..)` inside a macro transcriber: the method is named by the metavariable
                    mv = self.next(); nm = Tok("id", "$" + mv.text, nm.pos, mv.end)
                if nm.kind != "id": raise self.fail(nm, "method or field name expected")
                turbofish = None
                if self.at("::"):
                    self.next(); self.expect("<"); turbofish = self.parse_type(set()); self.expect(">")
                    if not self.at("("): raise self.fail(self.peek(), "method call expected after a turbofish")
                if self.at("("):
                    args, end = self.parse_args()
                    e = N("mcall", e.pos, end, recv=e, name=nm.text, args=args, turbofish=turbofish)
                else:
                    e = N("field", e.pos, nm.end, recv=e, name=nm.text)
            elif self.at("["):
                lb = self.next()
                if self.at("["):
                    # `m[[i, j]]`: matrix entry
                    self.next(); items = []
                    while not self.at("]"):
                        items.append(self.parse_expr())
                        if self.at(","): self.next()
                    self.next(); rb = self.expect("]")
                    e = N("index", e.pos, rb.end, recv=e, idx=N("array", lb.pos, rb.end, items=items)); continue
                idx = self.parse_expr()
                rb = self.expect("]")
                e = N("index", e.pos, rb.end, recv=e, idx=idx)
            elif self.at("?"):
                if not Parser.try_op: raise self.fail(self.peek(), "`?` is outside the subset")
                q = self.next()
                e = N("try", e.pos, q.end, e=e)
            else:
                return e

    def parse_args(self):
        self.expect("("); args = []
        while not self.at(")"):
            args.append(self.parse_expr())
            if self.at(","): self.next()
            elif not self.at(")"): raise self.fail(self.peek(), "expected `,` or `)`")
        rp = self.expect(")")
        return args, rp.end

    def parse_primary(self, nostruct):
        t = self.peek()
        if t.kind in ("float", "int"):
            self.next(); return N("lit", t.pos, t.end, text=t.text, isf=(t.kind == "float"), suffix=t.suffix)
        if t.kind == "str":
            self.next(); return N("str", t.pos, t.end)
        if t.kind == "p" and t.text == "(":
            self.next()
            if self.at(")"): raise self.fail(t, "unit value is outside the subset")
            e = self.parse_expr()
            if self.at(","):
                items = [e]
                while self.at(","):
                    self.next()
                    if self.at(")"): break
                    items.append(self.parse_expr())
                rp = self.expect(")")
                return N("tuple", t.pos, rp.end, items=items)
            rp = self.expect(")")
            return N("paren", t.pos, rp.end, e=e)
        if t.kind == "p" and t.text == "[":
            self.next(); items = []
            while not self.at("]"):
                items.append(self.parse_expr())
                if self.at(";"):
                    self.next(); n = self.parse_expr(); rb = self.expect("]")
                    return N("vecrep", t.pos, rb.end, e=items[0], n=n)
                if self.at(","): self.next()
            rb = self.next()
            return N("array", t.pos, rb.end, items=items)
        if t.kind == "p" and t.text == "{":
            return self.parse_block()
        if t.kind == "p" and t.text == "|":
            self.next(); params = []
            while not self.at("|"):
                params.append(self.parse_pattern())
                if self.at(":"): self.next(); self.parse_type({",", "|"})
                if self.at(","): self.next()
            self.expect("|")
            body = self.parse_expr()
            if self.at("=") and Parser.closure_assign:
                # `|x| *x = e`: an assignment through the closure's parameter (only meaningful under `iter_mut().for_each(..)`); read only by
                # the targets that switch Parser.closure_assign on, so that the refusals recorded by the earlier targets keep their wording
                self.next(); rhs = self.parse_expr()
                body = N("cassign", body.pos, rhs.end, target=body, e=rhs)
            one = params[0][1] if len(params) == 1 and params[0][0] == "var" else None
            return N("closure", t.pos, body.end, param=one, params=params, body=body)
        if t.kind == "p" and t.text == "||":
            raise self.fail(t, "closure without parameters is outside the subset")
        if t.kind == "p" and t.text == "$" and self.peek(1).kind == "id" and self.at("(", 2):
            # `$f(args)` inside a macro transcriber: a call of the function named by the metavariable
            self.next(); mv = self.next(); args, end = self.parse_args()
            return N("call", t.pos, end, path=["$" + mv.text], args=args)
        if t.kind == "id":
            if t.text == "if": return self.parse_if()
            if t.text == "return":
                self.next()
                if self.at(";") or self.at("}"): return N("return", t.pos, t.end, e=None)
                e = self.parse_expr()
                return N("return", t.pos, e.end, e=e)
            if t.text == "loop":
                self.next(); body = self.parse_block()
                return N("loop", t.pos, body.end, body=body)
            if t.text == "break":
                self.next()
                if self.at(";") or self.at("}"): return N("break", t.pos, t.end, e=None)
                e = self.parse_expr()
                return N("break", t.pos, e.end, e=e)
            if t.text == "continue":
                self.next(); return N("continue", t.pos, t.end)
            if t.text == "match":
                # parsed as an opaque node (scrutinee + skipped arms): every translator refuses it where it meets it, so that
                # the statements around a `match` can still be translated as a fragment
                self.next(); scrut = self.parse_expr(nostruct=True)
                if not self.at("{"): raise self.fail(t, "`match` arms expected")
                save = self.i
                try: arms = self.parse_enum_pair_arms()
                except Unsupported: arms = None
                if arms is None:
                    self.i = save; self.skip_balanced()
                return N("match", t.pos, self.t[self.i - 1].end, scrut=scrut, arms=arms)
            if t.text in ("while", "for", "unsafe", "move"):
                raise self.fail(t, f"`{t.text}` is outside the subset")
            # path
            self.next(); segs = [t.text]; end = t.end
            while self.at("::"):
                self.next()
                if self.at("<"):       # `Vec::<f64>::new`
                    self.next(); self.parse_type(set()); self.expect(">"); continue
                s = self.next()
                if s.kind != "id": raise self.fail(s, "path segment expected")
                segs.append(s.text); end = s.end
            if self.at("!"):
                bang = self.next()
                if not (self.at("(") or self.at("[") or self.at("{")): raise self.fail(bang, "macro arguments expected")
                if segs[-1] in ("assert", "debug_assert", "assert_eq", "assert_ne"):
                    self.expect("(")
                    c = self.parse_expr()
                    if segs[-1] in ("assert_eq", "assert_ne"):
                        self.expect(","); c2 = self.parse_expr()
                        c = N("bin", c.pos, c2.end, op=("==" if segs[-1] == "assert_eq" else "!="), a=c, b=c2)
                    depth = 1
                    while depth:     # skip the message arguments
                        u = self.next()
                        if u.kind == "eof": raise self.fail(t, "unterminated macro")
                        if u.kind == "p" and u.text in "([{": depth += 1
                        if u.kind == "p" and u.text in ")]}": depth -= 1
                    if segs[-1] == "debug_assert": raise self.fail(t, "debug_assert! depends on the build profile")
                    return N("assert", t.pos, self.t[self.i - 1].end, cond=c)
                if segs[-1] in ("panic", "unreachable", "unimplemented", "todo"):
                    self.skip_balanced()
                    return N("panic", t.pos, self.t[self.i - 1].end)
                if segs == ["vec"] and self.at("["):
                    return self.parse_primary(nostruct)      # `vec![c; n]` / `vec![a, b]`: the array forms
                raise self.fail(t, f"macro `{segs[-1]}!` is outside the subset")
            if self.at("("):
                args, end = self.parse_args()
                return N("call", t.pos, end, path=segs, args=args)
            if self.at("{") and not nostruct and (segs[-1][0].isupper()):
                return self.parse_struct_lit(t, segs)
            return N("path", t.pos, end, segs=segs)
        raise self.fail(t, "expression expected")

    def parse_enum_pair_arms(self):
        """the arms of the ONE form of `match` the statement-level translator reads: the scrutinee is a pair `[a, b]` of values of
           one enum, every pattern is `[p, q]` or `_` with p, q = `_` | `Enum::Variant` | `Enum::Variant(ident)`.
           Returns [((p, q) | None, body)] with p = None | (enum path, variant, payload name | None), or None for any other form."""
        self.expect("{"); arms = []
        def pat1():
            if self.at("_"):
                self.next(); return None
            nm = self.next()
            if nm.kind != "id": raise Unsupported("not an enum pattern")
            segs = [nm.text]
            while self.at("::"):
                self.next(); s2 = self.next()
                if s2.kind != "id": raise Unsupported("not an enum pattern")
                segs.append(s2.text)
            if len(segs) < 2: raise Unsupported("not an enum pattern")
            payload = None
            if self.at("("):
                self.next(); pv = self.next()
                if pv.kind != "id": raise Unsupported("not an enum pattern")
                payload = pv.text; self.expect(")")
            return (segs[:-1], segs[-1], payload)
        while not self.at("}"):
            if self.at("_"):
                self.next(); pat = None
            else:
                self.expect("["); a = pat1(); self.expect(","); b = pat1(); self.expect("]"); pat = (a, b)
            self.expect("=>")
            body = self.parse_block() if self.at("{") else self.parse_expr()
            arms.append((pat, body))
            if self.at(","): self.next()
        self.expect("}")
        return arms

    def parse_struct_lit(self, t, segs):
        self.expect("{"); fields = []
        while not self.at("}"):
            nm = self.next()
            if nm.kind != "id": raise self.fail(nm, "field name expected")
            if self.at(":"):
                self.next(); e = self.parse_expr()
            else:
                e = N("path", nm.pos, nm.end, segs=[nm.text])
            fields.append((nm.text, e))
            if self.at(","): self.next()
            elif self.at(".."): raise self.fail(self.peek(), "struct update syntax is outside the subset")
        rb = self.expect("}")
        return N("struct", t.pos, rb.end, path=segs, fields=fields)

    def parse_if(self):
        kw = self.expect("if")
        iflet = None
        if self.at("let"):
            # `if let Some(x) = e { .. } else { .. }`
            lt = self.next(); ctor = self.next()
            if ctor.kind != "id" or ctor.text != "Some" or not self.at("("): raise self.fail(lt, "`if let` is only supported as `if let Some(x) = e`")
            self.next(); v = self.next(); self.expect(")"); self.expect("=")
            if v.kind != "id": raise self.fail(v, "`if let Some(x)`: a name expected")
            iflet = v.text
        c = self.parse_expr(nostruct=True)
        th = self.parse_block(); el = None; end = th.end
        if self.at("else"):
            self.next()
            el = self.parse_if() if self.at("if") else self.parse_block()
            end = el.end
        if iflet is not None: return N("iflet", kw.pos, end, name=iflet, e=c, th=th, el=el)
        return N("if", kw.pos, end, cond=c, th=th, el=el)


# ----------------------------------------------------------------------------------------------- module scan
class Module:
    """the items of one source file that the translator can look at"""

    def __init__(self, path, text=None):
        self.src = Source(path, text)
        self.structs = {}      # name -> [(field, type)]
        self.consts = {}       # name -> (type, expr node)
        self.fns = {}          # (owner or None, name) -> fn node      owner = type name of the impl
        self.macro_fns = {}    # (macro name, owner, fn name) -> fn node
        self.aliases = {}      # `type A = B;`
        self.assoc = {}        # (owner, associated type name) -> type text     (`type PDFType = f64;` inside an impl)
        self.enums = {}        # name -> [(variant, [payload type texts])]
        self._scan(0, len(self.src.toks) - 1, None, None)

    def _scan(self, lo, hi, owner, macro):
        p = Parser(self.src, lo, hi); t = self.src.toks
        while p.i < hi:
            tk = p.peek()
            if tk.kind == "id" and tk.text == "struct":
                p.next(); nm = p.next()
                if p.at("{"):
                    p.next(); fields = []
                    while not p.at("}"):
                        while p.at("#"): p.next(); p.skip_balanced()
                        if p.at("pub"):
                            p.next()
                            if p.at("("): p.skip_balanced()
                        f = p.next(); p.expect(":")
                        fields.append((f.text, p.parse_type({",", "}"})))
                        if p.at(","): p.next()
                    p.next(); self.structs[nm.text] = fields
                continue
            if tk.kind == "id" and tk.text == "enum" and p.peek(1).kind == "id" and p.at("{", 2):
                p.next(); nm = p.next(); p.next(); variants = []
                while not p.at("}"):
                    while p.at("#"): p.next(); p.skip_balanced()
                    v = p.next(); tys = []
                    if p.at("("):
                        p.next()
                        while not p.at(")"):
                            tys.append(p.parse_type({",", ")"}))
                            if p.at(","): p.next()
                        p.next()
                    elif p.at("{") or p.at("="): tys = None      # struct-like variants / discriminants: not modelled
                    variants.append((v.text, tys))
                    if tys is None:
                        while not (p.at(",") or p.at("}")):
                            if p.at("{") or p.at("("): p.skip_balanced()
                            else: p.next()
                    if p.at(","): p.next()
                p.next(); self.enums[nm.text] = variants
                continue
            if tk.kind == "id" and tk.text == "const" and p.peek(1).kind == "id" and p.at(":", 2):
                p.next(); nm = p.next(); p.expect(":"); ty = p.parse_type({"="}); p.expect("=")
                if ty in ("f64",) or ty in INT_SUFFIX:
                    e = p.parse_expr(); p.expect(";"); self.consts[nm.text] = (ty, e)
                else:
                    while not p.at(";"):
                        if p.at("(") or p.at("[") or p.at("{"): p.skip_balanced()
                        else: p.next()
                continue
            if tk.kind == "id" and tk.text == "type" and owner is None and p.peek(1).kind == "id" and p.at("=", 2) and p.peek(3).kind == "id" and p.at(";", 4):
                self.aliases[p.peek(1).text] = p.peek(3).text
                p.i += 5; continue
            if tk.kind == "id" and tk.text == "type" and owner is not None and p.peek(1).kind == "id" and p.at("=", 2):
                nm = p.peek(1).text; p.i += 3
                self.assoc[(owner, nm)] = p.parse_type({";"}); continue
            if tk.kind == "id" and tk.text == "trait" and p.peek(1).kind == "id":
                p.next(); nm = p.next()
                while not p.at("{"): p.next()
                start = p.i; p.skip_balanced()
                self.structs.setdefault(nm.text, [])      # a trait has no fields
                self._scan(start + 1, p.i - 1, nm.text, macro)
                continue
            if tk.kind == "id" and tk.text == "impl":
                p.next(); hdr = []
                while not p.at("{"):
                    hdr.append(p.next().text)
                if "for" in hdr: ty = hdr[hdr.index("for") + 1:]
                else: ty = hdr
                ty = [x for x in ty if re.fullmatch(r"[A-Za-z_]\w*", x)]
                name = ty[0] if ty else None
                name = self.aliases.get(name, name)
                start = p.i; p.skip_balanced()
                self._scan(start + 1, p.i - 1, name, macro)
                continue
            if tk.kind == "id" and tk.text == "macro_rules":
                p.next(); p.expect("!"); nm = p.next()
                start = p.i; p.skip_balanced()
                self._scan(start + 1, p.i - 1, None, nm.text)
                continue
            if tk.kind == "id" and tk.text == "mod" and p.peek(1).kind == "id" and p.at("{", 2):
                p.next(); p.next(); p.skip_balanced(); continue      # nested modules (tests) are not scanned
            if tk.kind == "id" and tk.text == "fn":
                save = p.i
                # find the extent of the function without parsing its body
                q = Parser(self.src, p.i, hi)
                while not q.at("{") and not q.at(";"):
                    if q.at("(") or q.at("["): q.skip_balanced()      # `-> [usize; 2]`: the `;` of an array type does not end the item
                    else: q.next()
                if q.at(";"): p.i = q.i + 1; continue
                q.skip_balanced()
                nm = t[save + 1].text
                entry = (save, q.i)
                if macro is not None: self.macro_fns.setdefault((macro, owner, nm), entry)
                else: self.fns.setdefault((owner, nm), entry)
                p.i = q.i; continue
            if tk.kind == "p" and tk.text in "([{" and macro is not None:
                # macro matcher / transcriber brackets: look inside
                start = p.i; p.skip_balanced(); self._scan(start + 1, p.i - 1, owner, macro); continue
            p.next()

    def fn(self, owner, name, macro=None):
        key = (macro, owner, name) if macro else (owner, name)
        tab = self.macro_fns if macro else self.fns
        if key not in tab:
            raise Unsupported(f"{os.path.basename(self.src.path)}: function `{name}` of `{owner}`" + (f" in macro `{macro}`" if macro else "") + " not found")
        lo, hi = tab[key]
        return Parser(self.src, lo, hi).parse_fn()


# ----------------------------------------------------------------------------------------------- literals
def _fhex(text):
    x = float(text)            # correctly rounded, as rustc's literal parser
    if x != x or x in (float("inf"), float("-inf")): raise ValueError("non-finite literal " + text)
    if x == 0: return "0"
    m = re.fullmatch(r"(-?)0x([01])\.([0-9a-f]+)p([+-]\d+)", x.hex())
    if not m: raise ValueError("unexpected float " + x.hex())
    s = f"0x{m.group(2)}.{m.group(3)}p{m.group(4)}"
    return f"(-{s})" if m.group(1) else s


def lit_pair(text):
    fr = Fraction(text)
    return f"(({fr.numerator} # {fr.denominator})%Q, {_fhex(text)}%float)"


def float_literal(text):
    """Gallina term for an f64 literal"""
    fr = Fraction(text)
    if fr.denominator == 1:
        n = fr.numerator
        if n == 0: return "zero O"
        if n == 1: return "one O"
        if n == 2: return "two O"
        if n < 2 ** 53: return f"ofZ O {n}"
    if fr.numerator < 2 ** 53 and fr.denominator < 2 ** 53:
        return f"ofQ O ({fr.numerator} # {fr.denominator})"
    return f"ofLit O {lit_pair(text)}"


# ----------------------------------------------------------------------------------------------- translation
COQ_RESERVED = {
    # Gallina keywords and the global names the generated text uses
    "as", "at", "cofix", "else", "end", "exists", "exists2", "fix", "for", "forall", "fun", "if", "IF", "in", "let",
    "match", "mod", "Prop", "return", "Set", "then", "Type", "using", "where", "with", "by",
    "O", "T", "zero", "one", "two", "add", "sub", "mul", "div", "neg", "abs", "sqrt", "ltb", "leb", "eqb", "ofZ", "ofQ",
    "truncZ", "ofLit", "f1", "f2", "pi", "powi", "fmin", "fmax", "is_nan", "map", "Some", "None", "Fin", "PInf", "Undef",
    "negb", "andb", "orb", "true", "false", "Z", "Q", "nat", "list", "bool", "option", "rs_range", "rs_iter_sum", "rs_seq", "rs_fold_enum", "rs_fold_enum_from",
    "Exp", "Ln", "Sin", "Cos", "Ln1p", "Expm1", "Exp2", "Floor", "Pow", "S", "I", "R", "N", "Gam", "Bet", "Erf", "LnGam", "Binom",
}
F1 = {"exp": "Exp", "ln": "Ln", "sin": "Sin", "cos": "Cos", "tan": "Tan", "ln_1p": "Ln1p", "exp_m1": "Expm1",
      "exp2": "Exp2", "floor": "Floor", "ceil": "Ceil", "log2": "Log2", "log10": "Log10", "tanh": "Tanh",
      "sinh": "Sinh", "cosh": "Cosh", "atan": "Atan"}
INT_TYPES = set(INT_SUFFIX)


class Config:
    """per-target tables
       calls : crate function name -> (Gallina parameter name, [arg types], result type)   types: 'f' | 'i'
       consts: constant name -> Gallina term of type T (overrides the inlined definition of a module const)
       param_types: Rust type text -> 'f' | 'i' (extra spellings, e.g. a macro's `$t1` or `Self::PDFType`)"""

    def __init__(self, calls=None, consts=None, param_types=None, self_calls=None, arrays=None, draws=None):
        self.draws = draws or []             # source texts of the random draws a rejection loop may make, e.g. "alea::f64()"
        self.arrays = arrays or {}           # const array name -> (Gallina list term, element type text, rendering of an element `v` as a T term, with {v})
        self.self_calls = self_calls or {}   # method name -> (Gallina parameter, [arg types], result type): `self.m(args)` of an abstract method
        self.calls = calls or {}
        self.consts = consts or {}
        self.param_types = param_types or {}


class Translated:
    def __init__(self, name, text, sig, mode, used_calls, notes):
        self.name, self.text, self.sig, self.mode, self.used_calls, self.notes = name, text, sig, mode, used_calls, notes


class Translator:
    def __init__(self, module, config=None):
        self.m, self.src, self.cfg = module, module.src, config or Config()
        self.used_calls = []
        self.notes = []
        self.owner = None
        self.inline_depth = 0

    def fail(self, node, msg): return self.src.err(node.pos, node.end, msg)

    def ty_of_rust(self, ty, node=None):
        ty = ty.replace(" ", "")
        while ty.startswith("&"): ty = ty[1:]
        if ty in self.cfg.param_types: return self.cfg.param_types[ty]
        if ty.startswith("Self::") and (self.owner, ty[6:]) in self.m.assoc: ty = self.m.assoc[(self.owner, ty[6:])].replace(" ", "")
        if ty == "f64": return "f"
        if ty in INT_TYPES: return "i"
        if ty == "bool": return "b"
        msg = f"type `{ty}` is outside the subset"
        raise (self.fail(node, msg) if node is not None else Unsupported(msg))

    def ident(self, name, env=None, key=None):
        """Gallina name for the Rust variable `name`; never a reserved word / a name the generated text uses, and (given
           env) never the name of ANOTHER variable that is still visible (a local must not capture `self.f`'s binder)"""
        reserved = COQ_RESERVED | {c[0] for c in self.cfg.calls.values()} | {c[0] for c in self.cfg.self_calls.values()}
        nm = name + "_" if name in reserved or name.startswith("_") else name
        if env is not None:
            taken = {v[0].split()[-1] for k, v in env.items() if k != key}
            while nm in taken: nm += "'"
        return nm

    # ---- expressions: returns (term, type)
    def expr(self, e, env):
        k = e.kind
        if k == "paren" or k == "ref": return self.expr(e.e, env)
        if k == "lit":
            if e.isf:
                try: return float_literal(e.text), "f"
                except ValueError as ex: raise self.fail(e, str(ex))
            return f"{int(e.text)}%Z", "i"
        if k == "path": return self.path(e, env)
        if k == "field":
            if e.recv.kind == "path" and e.recv.segs == ["self"]:
                key = "self." + e.name
                if key not in env: raise self.fail(e, f"`self.{e.name}` is not a numeric field of the type")
                return env[key]
            raise self.fail(e, "field access on something other than `self`")
        if k == "un":
            s, t = self.expr(e.e, env)
            if e.op == "-":
                if t == "f": return f"neg O ({s})", "f"
                if t == "i":
                    return f"Z.opp ({s})", "i"
                raise self.fail(e, "unary minus on a non-number")
            if t != "b": raise self.fail(e, "`!` on a non-boolean (bitwise not is outside the subset)")
            return f"negb ({s})", "b"
        if k == "cast":
            s, t = self.expr(e.e, env)
            if e.ty == "f64":
                if t == "f": return s, "f"
                if t == "i": return f"ofZ O ({s})", "f"
            elif e.ty in INT_TYPES:
                if t == "i":
                    note = "integer-to-integer `as` casts are the identity on Z (no wrap-around)"
                    if note not in self.notes: self.notes.append(note)
                    return s, "i"
                if t == "f": raise self.fail(e, "float-to-integer cast is outside the subset")
            raise self.fail(e, f"cast to `{e.ty}` is outside the subset")
        if k == "bin": return self.binop(e, env)
        if k == "mcall": return self.mcall(e, env)
        if k == "call": return self.call(e, env)
        if k == "if":
            c = self.cond(e.cond, env)
            if e.el is None: raise self.fail(e, "value `if` without `else`")
            a, ta = self.value_block(e.th, env)
            b, tb = self.value_block(e.el, env) if e.el.kind == "block" else self.expr(e.el, env)
            if ta != tb: raise self.fail(e, "branches of different types")
            return f"if {c} then {a} else {b}", ta
        if k == "block": return self.value_block(e, env)
        if k == "range":
            if not e.incl: raise self.fail(e, "half-open range is outside the subset (only `a ..= b`)")
            raise self.fail(e, "a range may only be used as `(a ..= b).contains(&x)` or `(a ..= b).map(|i| ..).sum()`")
        if k == "index": raise self.fail(e, "indexing (slices) is outside the subset")
        if k == "match": raise self.fail(e, "`match` is outside the subset")
        if k == "tuple": raise self.fail(e, "tuples are outside the subset")
        if k == "tfield": raise self.fail(e, "tuple fields are outside the subset")
        if k == "return": raise self.fail(e, "`return` inside an expression")
        if k in ("assert", "panic"): raise self.fail(e, "panic inside an expression")
        if k == "closure": raise self.fail(e, "closure outside `.map(..)`")
        if k == "struct": raise self.fail(e, "struct literal outside the tail of a constructor")
        if k == "str": raise self.fail(e, "string outside a macro")
        if k == "refmut": raise self.fail(e, "`&mut` is outside the subset")
        raise self.fail(e, f"unsupported expression ({k})")

    def value_block(self, b, env):
        env = dict(env); lets = []
        for s in b.stmts:
            if s.kind != "let" or s.mut: raise self.fail(s, "statement inside a value block (only immutable `let` is allowed there)")
            lets.append(self.let(s, env))
        if b.tail is None: raise self.fail(b, "block without a value")
        s, t = self.expr(b.tail, env)
        return "".join(lets) + s, t

    def let(self, s, env):
        if s.name is None: raise self.fail(s, "`let` with a pattern is outside the subset")
        v, t = self.expr(s.e, env)
        if s.ty is not None and self.ty_of_rust(s.ty, s) != t: raise self.fail(s, "declared type differs from the inferred one")
        nm = self.ident(s.name, env, s.name)
        env[s.name] = (nm, t)
        return f"let {nm} := {v} in "

    def cond(self, e, env):
        s, t = self.expr(e, env)
        if t != "b": raise self.fail(e, "condition is not a boolean")
        return s

    def path(self, e, env):
        segs = e.segs
        if len(segs) == 1 and segs[0] in env: return env[segs[0]]
        name = segs[-1]
        if len(segs) == 1 and name in self.cfg.consts: return self.cfg.consts[name], "f"
        if (segs == ["PI"] and "PI" not in self.m.consts) or segs in (["std", "f64", "consts", "PI"], ["f64", "consts", "PI"], ["core", "f64", "consts", "PI"], ["consts", "PI"]):
            return "pi O", "f"
        if segs in (["f64", "EPSILON"], ["std", "f64", "EPSILON"]):
            return "ofQ O (1 # 4503599627370496)", "f"
        if len(segs) == 1 and name in self.m.consts:
            ty, ce = self.m.consts[name]
            s, t = self.expr(ce, {})
            want = self.ty_of_rust(ty)
            if t != want: raise self.fail(ce, "constant's type differs from its initialiser")
            return s, t
        if segs in (["f64", "INFINITY"], ["std", "f64", "INFINITY"]):
            return "rs_f64_infinity O", "f"
        if segs in (["f64", "NAN"], ["f64", "NEG_INFINITY"], ["std", "f64", "NAN"]):
            raise self.fail(e, "-infinity / NaN constants are only supported as a whole result (moment mode)")
        raise self.fail(e, "unknown name")

    def binop(self, e, env):
        a, ta = self.expr(e.a, env); b, tb = self.expr(e.b, env); op = e.op
        if op in ("&&", "||", "&", "|"):
            if ta != "b" or tb != "b": raise self.fail(e, f"`{op}` on non-booleans")
            return (f"andb ({a}) ({b})" if op in ("&&", "&") else f"orb ({a}) ({b})"), "b"
        if ta != tb or ta == "b":
            raise self.fail(e, f"operands of `{op}` have different or non-numeric types")
        if ta == "f":
            tab = {"+": "add O ({a}) ({b})", "-": "sub O ({a}) ({b})", "*": "mul O ({a}) ({b})", "/": "div O ({a}) ({b})",
                   "<": "ltb O ({a}) ({b})", ">": "ltb O ({b}) ({a})", "<=": "leb O ({a}) ({b})", ">=": "leb O ({b}) ({a})",
                   "==": "eqb O ({a}) ({b})", "!=": "negb (eqb O ({a}) ({b}))"}
        else:
            tab = {"+": "Z.add ({a}) ({b})", "-": "Z.sub ({a}) ({b})", "*": "Z.mul ({a}) ({b})",
                   "<": "Z.ltb ({a}) ({b})", ">": "Z.ltb ({b}) ({a})", "<=": "Z.leb ({a}) ({b})", ">=": "Z.leb ({b}) ({a})",
                   "==": "Z.eqb ({a}) ({b})", "!=": "negb (Z.eqb ({a}) ({b}))"}
        if op not in tab: raise self.fail(e, f"operator `{op}` on this type is outside the subset")
        return tab[op].format(a=a, b=b), ("b" if op in ("<", ">", "<=", ">=", "==", "!=") else ta)

    @staticmethod
    def strip(e):
        while e.kind in ("paren", "ref"): e = e.e
        return e

    def mcall(self, e, env):
        name, args = e.name, e.args
        recv = self.strip(e.recv)
        # ranges
        if getattr(e, "turbofish", None) is not None: raise self.fail(e, "turbofish is outside the subset")
        if recv.kind == "range":
            if not recv.incl or recv.lo is None or recv.hi is None: raise self.fail(recv, "half-open range is outside the subset (only `a ..= b`)")
            if name == "contains" and len(args) == 1:
                lo, tl = self.expr(recv.lo, env); hi, th = self.expr(recv.hi, env); x, tx = self.expr(args[0], env)
                if not (tl == th == tx) or tl == "b": raise self.fail(e, "range and argument of different types")
                if tl == "f": return f"andb (leb O ({lo}) ({x})) (leb O ({x}) ({hi}))", "b"
                return f"andb (Z.leb ({lo}) ({x})) (Z.leb ({x}) ({hi}))", "b"
            raise self.fail(e, f"`.{name}` on a range is outside the subset")
        if name == "sum" and not args:
            inner = self.strip(e.recv)
            if inner.kind == "mcall" and inner.name == "map" and len(inner.args) == 1 and inner.args[0].kind == "closure" \
               and self.strip(inner.recv).kind == "range":
                rg = self.strip(inner.recv); cl = inner.args[0]
                if not rg.incl or rg.lo is None or rg.hi is None: raise self.fail(rg, "half-open range is outside the subset (only `a ..= b`)")
                if cl.param is None: raise self.fail(cl, "closure parameter: a single name expected")
                lo, tl = self.expr(rg.lo, env); hi, th = self.expr(rg.hi, env)
                if tl != "i" or th != "i": raise self.fail(rg, "only integer ranges can be summed over")
                env2 = dict(env); v = self.ident(cl.param, env, cl.param); env2[cl.param] = (v, "i")
                body, tb = self.expr(cl.body, env2)
                if tb != "f": raise self.fail(cl, "only sums of f64 terms are supported")
                return f"rs_iter_sum O (map (fun {v} : Z => {body}) (rs_range ({lo}) ({hi})))", "f"
            raise self.fail(e, "`.sum()` is only supported as `(a ..= b).map(|i| expr).sum()`")
        if recv.kind == "path" and recv.segs == ["self"]:
            return self.self_call(e, env)
        r, tr = self.expr(e.recv, env)
        if name in ("min", "max") and len(args) == 1:
            a, ta = self.expr(args[0], env)
            if ta != tr: raise self.fail(e, "receiver and argument of different types")
            if tr == "f": return f"f{name} O ({r}) ({a})", "f"
            if tr == "i": return f"Z.{name} ({r}) ({a})", "i"
        if tr != "f": raise self.fail(e, f"method `.{name}` on a non-f64 receiver is outside the subset")
        if name in F1 and not args: return f"f1 O {F1[name]} ({r})", "f"
        if name == "sqrt" and not args: return f"sqrt O ({r})", "f"
        if name == "abs" and not args: return f"abs O ({r})", "f"
        if name == "powi" and len(args) == 1:
            a, ta = self.expr(args[0], env)
            if ta != "i": raise self.fail(args[0], "powi exponent must be an integer expression")
            return f"powi O ({r}) ({a})", "f"
        if name == "powf" and len(args) == 1:
            a, ta = self.expr(args[0], env)
            if ta != "f": raise self.fail(args[0], "powf exponent must be f64")
            base = self.strip(e.recv)
            if base.kind == "lit" and base.isf and Fraction(base.text) == 2:
                note = "R1: `2_f64.powf(e)` rendered as exp2(e) (what rustc/LLVM emits)"
                if note not in self.notes: self.notes.append(note)
                return f"f1 O Exp2 ({a})", "f"
            return f"f2 O Pow ({r}) ({a})", "f"
        raise self.fail(e, f"method `.{name}` with {len(args)} argument(s) is outside the subset")

    def self_call(self, e, env):
        if e.name in self.cfg.self_calls:
            cq, argt, rt = self.cfg.self_calls[e.name]
            if len(argt) != len(e.args): raise self.fail(e, "wrong number of arguments")
            out = []
            for a, want in zip(e.args, argt):
                s, t = self.expr(a, env)
                if t != want: raise self.fail(a, "argument of the wrong type")
                out.append(f" ({s})")
            if cq not in self.used_calls: self.used_calls.append(cq)
            return cq + "".join(out), rt
        if e.args: raise self.fail(e, "`self.m(args)` is outside the subset (only argument-less methods are inlined)")
        if self.owner is None: raise self.fail(e, "`self` method outside an impl")
        if self.inline_depth > 4: raise self.fail(e, "recursive `self` method")
        fn = self.m.fn(self.owner, e.name)
        if fn.params or not fn.has_self: raise self.fail(e, "only `&self` methods without arguments are inlined")
        b = fn.body
        if b.stmts or b.tail is None: raise self.fail(e, f"`self.{e.name}()`: only single-expression methods are inlined")
        self.inline_depth += 1
        try: s, t = self.expr(b.tail, {k: v for k, v in env.items() if k.startswith("self.")})
        finally: self.inline_depth -= 1
        return s, t

    def call(self, e, env):
        name = "::".join(e.path)
        if name in ("f64::min", "f64::max") and len(e.args) == 2:
            # `f64::min(a, b)` is the method call `a.min(b)`
            (a, ta), (b, tb) = self.expr(e.args[0], env), self.expr(e.args[1], env)
            if ta != "f" or tb != "f": raise self.fail(e, "f64::min / f64::max on non-f64 arguments")
            return f"{'fmin' if name.endswith('min') else 'fmax'} O ({a}) ({b})", "f"
        if name in self.cfg.calls:
            cq, argt, rt = self.cfg.calls[name]
            if not argt:
                # a call without arguments is a random draw: each occurrence is a different value
                if cq in self.used_calls: raise self.fail(e, f"second call of `{name}()` in one function (each draw is a different value)")
                self.used_calls.append(cq)
                return cq, rt
            if len(argt) != len(e.args): raise self.fail(e, "wrong number of arguments")
            out = []
            for a, want in zip(e.args, argt):
                s, t = self.expr(a, env)
                if t != want: raise self.fail(a, "argument of the wrong type")
                out.append(f"({s})")
            if cq not in self.used_calls: self.used_calls.append(cq)
            return f"{cq} " + " ".join(out), rt
        raise self.fail(e, f"call of `{'::'.join(e.path)}` is outside the subset (not in the target's table of crate functions)")

    # ---- function bodies (tail position: return / panic allowed)
    def diverges(self, b):
        """every path through block b leaves the function"""
        for s in b.stmts:
            if s.kind == "semi" and self.leaves(s.e): return True
        return b.tail is not None and self.leaves(b.tail)

    def leaves(self, e):
        if e.kind in ("return", "panic"): return True
        if e.kind == "if": return e.el is not None and self.leaves_blk(e.th) and self.leaves_blk(e.el)
        if e.kind == "block": return self.diverges(e)
        return False

    def leaves_blk(self, b): return self.diverges(b) if b.kind == "block" else self.leaves(b)

    def none(self):
        return "false" if self.mode == "guard" else "None"

    def wrap(self, e, env):
        """a normal result"""
        if self.mode == "guard": return "true"
        core = self.strip(e)
        if self.mode == "moment":
            if core.kind == "path" and core.segs[-2:] == ["f64", "INFINITY"]: return "PInf"
            if core.kind == "path" and core.segs[-2:] == ["f64", "NAN"]: return "Undef"
        if core.kind == "struct":
            if core.path[-1] not in ("Self", self.owner): raise self.fail(core, "constructor of another type")
            fields = self.m.structs.get(self.owner)
            if fields is None: raise self.fail(core, f"struct `{self.owner}` not found")
            given = dict(core.fields); vals = []
            for f, ty in fields:
                if f not in given: raise self.fail(core, f"field `{f}` missing")
                if ty == "f64" or ty in INT_TYPES:
                    s, t = self.expr(given[f], env)
                    if t != self.ty_of_rust(ty): raise self.fail(given[f], "field value of the wrong type")
                    vals.append(s)
                else:
                    raise self.fail(given[f], f"field `{f}` of non-numeric type `{ty}` (its initialiser may panic) is outside the subset")
            s = "(" + ", ".join(vals) + ")" if len(vals) != 1 else vals[0]
            self.ret_type = "struct"
        else:
            s, t = self.expr(e, env)
            if self.ret_type is None: self.ret_type = t
            elif self.ret_type != t: raise self.fail(e, "results of different types")
        if self.mode == "moment": s = f"Fin ({s})"
        if self.partial: s = f"Some ({s})"
        return s

    def tail_expr(self, e, env):
        k = e.kind
        if k == "paren": return self.tail_expr(e.e, env)
        if k == "return":
            if e.e is None: raise self.fail(e, "`return` without a value")
            return self.tail_expr(e.e, env)
        if k == "panic": return self.none()
        if k == "block": return self.tail_block(e.stmts, e.tail, env, e)
        if k == "if":
            c = self.cond(e.cond, env)
            if e.el is None: raise self.fail(e, "`if` without `else` in result position")
            a = self.tail_block(e.th.stmts, e.th.tail, env, e.th)
            b = self.tail_block(e.el.stmts, e.el.tail, env, e.el) if e.el.kind == "block" else self.tail_expr(e.el, env)
            return f"if {c} then {a} else {b}"
        return self.wrap(e, env)

    def tail_block(self, stmts, tail, env, where):
        env = dict(env)
        for idx, s in enumerate(stmts):
            rest = stmts[idx + 1:]
            if s.kind == "let" and s.mut:
                return self.fold_loop(s, rest, tail, env, where)
            if s.kind == "let" and self.strip(s.e).kind == "loop":
                self.rejection_loop(s, env)
                return self.tail_block(rest, tail, env, where)
            if s.kind == "let":
                return self.let(s, env) + self.tail_block(rest, tail, env, where)
            if s.kind == "while": raise self.fail(s, "`while` is outside the subset")
            if s.kind == "assign": raise self.fail(s, "assignment (mutable state) is outside the subset")
            if s.kind in ("for", "opassign"):
                raise self.fail(s, "loops / mutation are only supported as `let mut acc = init; for (idx, val) in ARRAY.iter().enumerate() { acc += expr; }`")
            e = s.e
            if e.kind == "assert":
                c = self.cond(e.cond, env)
                return f"if {c} then {self.tail_block(rest, tail, env, where)} else {self.none()}"
            if e.kind in ("panic", "return"):
                return self.tail_expr(e, env)
            if e.kind == "match": raise self.fail(e, "`match` is outside the subset")
            if e.kind == "if":
                c = self.cond(e.cond, env)
                branches = [e.th] + ([e.el] if e.el is not None else [])
                for br in branches:
                    if br.kind == "block" and not self.diverges(br) and (br.stmts or br.tail is not None):
                        raise self.fail(br, "a branch of a statement-`if` must leave the function (return / panic) or be empty")
                cont = None

                def k():
                    nonlocal cont
                    if cont is None: cont = self.tail_block(rest, tail, env, where)
                    return cont
                def branch(br):
                    if br is None: return k()
                    if br.kind == "if":
                        c2 = self.cond(br.cond, env)
                        if br.th.kind == "block" and not self.diverges(br.th) and (br.th.stmts or br.th.tail is not None):
                            raise self.fail(br.th, "a branch of a statement-`if` must leave the function (return / panic) or be empty")
                        return f"if {c2} then {branch(br.th)} else {branch(br.el)}"
                    if self.diverges(br): return self.tail_block(br.stmts, br.tail, env, br)
                    return k()
                return f"if {c} then {branch(e.th)} else {branch(e.el)}"
            raise self.fail(s, "expression statement without effect on the result is outside the subset")
        if tail is None: raise self.fail(where, "the function can end without a value")
        return self.tail_expr(tail, env)

    def rejection_loop(self, s, env):
        """`let u = loop { let v = DRAW; if cond(v) { break v; } };` with DRAW one of the target's random draws:
           u becomes an extra parameter of the function (the accepted draw) and cond an extra definition `<fn>_accept`."""
        bad = "a loop is only supported as `let u = loop { let v = <draw>; if cond { break v; } };`"
        lp = self.strip(s.e); b = lp.body
        items = list(b.stmts) + ([N("semi", b.tail.pos, b.tail.end, e=b.tail)] if b.tail is not None else [])
        if s.ty is not None or len(items) != 2 or items[0].kind != "let" or items[0].mut \
           or items[1].kind != "semi" or items[1].e.kind != "if": raise self.fail(lp, bad)
        dl, cf = items[0], items[1].e
        draw = " ".join(self.src.text[dl.e.pos:dl.e.end].split())
        if draw not in self.cfg.draws: raise self.fail(dl.e, "not one of the target's random draws " + repr(self.cfg.draws))
        th = cf.th
        brk = th.stmts[0].e if (len(th.stmts) == 1 and th.tail is None and th.stmts[0].kind == "semi") else (th.tail if not th.stmts else None)
        if cf.el is not None or brk is None or brk.kind != "break" or brk.e is None: raise self.fail(cf, bad)
        bv = self.strip(brk.e)
        if bv.kind != "path" or bv.segs != [dl.name]: raise self.fail(brk, bad)
        if self.accept is not None: raise self.fail(lp, "second rejection loop in one function")
        v = self.ident(dl.name, env, dl.name)
        envc = dict(env); envc[dl.name] = (v, "f")
        cond = self.cond(cf.cond, envc)
        self.accept = (v, cond, draw)
        u = self.ident(s.name, env, s.name)
        env[s.name] = (u, "f")
        self.extra_binders.append((u, "f"))

    def fold_loop(self, s, rest, tail, env, where):
        """`let mut acc = init; for (idx, val) in ARRAY.iter().enumerate() { acc += expr; }` followed by code that only
           reads acc  ->  let acc := rs_fold_enum (fun acc idx val => add O acc expr) ARRAY init in .."""
        bad = "mutable state is only supported as `let mut acc = init; for (idx, val) in ARRAY.iter().enumerate() { acc += expr; }`"
        if not rest or rest[0].kind != "for": raise self.fail(s, bad)
        lp = rest[0]
        it = lp.iter
        ok = (it.kind == "mcall" and it.name == "enumerate" and not it.args and it.recv.kind == "mcall" and it.recv.name == "iter"
              and not it.recv.args and it.recv.recv.kind == "path" and len(it.recv.recv.segs) == 1 and len(lp.pat) == 2)
        if not ok: raise self.fail(lp, bad)
        arr = it.recv.recv.segs[0]
        if arr not in self.cfg.arrays: raise self.fail(it, f"array `{arr}` is not in the target's table of constant arrays")
        lst, elt_ty, render = self.cfg.arrays[arr]
        b = lp.body
        if b.tail is not None or len(b.stmts) != 1 or b.stmts[0].kind != "opassign": raise self.fail(lp.body, bad)
        st = b.stmts[0]
        tgt = self.strip(st.target)
        if tgt.kind != "path" or tgt.segs != [s.name] or st.op != "+": raise self.fail(st, bad)
        for later in rest[1:]:
            if later.kind in ("for", "opassign"): raise self.fail(later, "the accumulator may only be read after its loop")
        init, ti = self.expr(s.e, env)
        if ti != "f": raise self.fail(s, "accumulator must be f64")
        acc = self.ident(s.name, env, s.name)
        idx = self.ident(lp.pat[0], dict(env, **{s.name: (acc, "f")}), lp.pat[0])
        val = self.ident(lp.pat[1], dict(env, **{s.name: (acc, "f"), lp.pat[0]: (idx, "i")}), lp.pat[1])
        env_l = dict(env); env_l[s.name] = (acc, "f"); env_l[lp.pat[0]] = (f"Z.of_nat {idx}", "i"); env_l[lp.pat[1]] = (render.format(v=val), "f")
        term, tt = self.expr(st.e, env_l)
        if tt != "f": raise self.fail(st.e, "summand must be f64")
        env2 = dict(env); env2[s.name] = (acc, "f")
        head = f"let {acc} := rs_fold_enum (fun ({acc} : T) ({idx} : nat) ({val} : {elt_ty}) => add O ({acc}) ({term})) {lst} ({init}) in "
        return head + self.tail_block(rest[1:], tail, env2, where)

    @staticmethod
    def has_panic(n):
        if isinstance(n, N):
            if n.kind in ("assert", "panic"): return True
            return any(Translator.has_panic(v) for k, v in n.__dict__.items() if k not in ("kind", "pos", "end"))
        if isinstance(n, (list, tuple)): return any(Translator.has_panic(v) for v in n)
        return False

    def function(self, owner, name, coq_name, mode="plain", macro=None, fields=None):
        """translate `fn name` of `impl .. owner` (owner None: module level) to a closed Gallina definition.
           mode: 'plain' | 'moment' | 'guard' (a bool: true iff none of the function's own assert!/panic! fires; the
           value the function then computes is NOT looked at, e.g. a constructor's struct literal).  Returns Translated."""
        self.owner, self.mode, self.used_calls, self.ret_type = owner, mode, [], None
        self.accept, self.extra_binders = None, []
        fn = self.m.fn(owner, name, macro)
        self.partial = self.has_panic(fn.body) and mode != "guard"
        env, binders = {}, []
        if fn.has_self:
            st = self.m.structs.get(owner)
            if st is None: raise self.fail(fn, f"struct `{owner}` not found in this file")
            for f, ty in st:
                if ty == "f64" or ty in INT_TYPES:
                    t = self.ty_of_rust(ty); nm = self.ident(f)
                    env["self." + f] = (nm, t); binders.append((nm, t))
        for p, ty, tok in fn.params:
            t = self.ty_of_rust(ty, tok); nm = self.ident(p, env, p)
            env[p] = (nm, t); binders.append((nm, t))
        body = self.tail_block(fn.body.stmts, fn.body.tail, env, fn.body)
        if fn.ret is not None and self.ret_type != "struct" and mode != "guard":
            rt = fn.ret.replace(" ", "")
            if not ((rt.startswith("Self::") and (owner, rt[6:]) not in self.m.assoc) or rt in self.cfg.param_types):
                if self.ty_of_rust(rt, fn) != self.ret_type: raise self.fail(fn, "declared result type differs from the inferred one")
        tys = {"f": "T", "i": "Z", "b": "bool"}
        callb = []
        for cq, argt, rt in list(self.cfg.calls.values()) + list(self.cfg.self_calls.values()):
            if cq in self.used_calls and cq not in [c for c, _ in callb]:
                callb.append((cq, " -> ".join(tys[a] for a in list(argt) + [rt])))
        pre = "{T : Type} (O : Ops T)" + "".join(f" ({c} : {ty})" for c, ty in callb)
        sig = pre + "".join(f" ({b} : {tys[t]})" for b, t in binders + self.extra_binders)
        text = f"Definition {coq_name} {sig} :=\n  {body}."
        if self.accept is not None:
            v, cond, draw = self.accept
            text = (f"(* `{name}` draws `{draw}` until the draw satisfies {coq_name}_accept; the accepted draw is the last argument of {coq_name} *)\n"
                    f"Definition {coq_name}_accept {pre}" + "".join(f" ({b} : {tys[t]})" for b, t in binders) + f" ({v} : T) : bool :=\n  {cond}.\n" + text)
        return Translated(coq_name, text, sig, mode, list(self.used_calls), list(self.notes))


# ----------------------------------------------------------------------------------------------- loops, slices, iterator chains
class NeedMode(Exception):
    """internal: the construct being rendered needs a richer context (a panic in a loop rendered as a pure fold, ..)"""
    def __init__(self, what): self.what = what


LOOP_RESERVED = {
    "rs_range_excl", "rs_len", "rs_usub", "rs_idiv", "rs_irem", "rs_get", "rs_set", "rs_slice", "rs_slice_from", "rs_slice_to",
    "rs_vec_rep", "rs_vec_alloc", "rs_enumerate", "rs_take", "rs_skip", "rs_fold_opt", "rs_map_opt", "rs_flow", "rs_next", "rs_break", "rs_return",
    "rs_panic", "rs_loop", "rs_iter_product", "rs_f64_nan", "rs_f64_max", "rs_f64_min", "rs_f64_infinity", "rs_f64_neg_infinity",
    "fold_left", "combine", "rev", "length", "bind", "fst", "snd", "nth_error", "repeat", "tt", "app", "unit", "firstn", "skipn",
    "upd", "guard", "map2", "pair", "nil", "cons",
    "rs_set_len", "rs_swap", "rs_f64_epsilon", "rs_while", "rs_repeat", "uninit_", "fuel_", "Some", "None", "option",
    "rs_as_i64", "rs_split_at", "rs_split_first", "rng_", "St_",
    "rs_is_infinite",
}


def is_int(t): return t in ("i", "si", "il")


def int_join(a, b):
    """type of an arithmetic result on two integers: signed if either is, unsigned if either is known unsigned, else unknown"""
    if "si" in (a, b): return "si"
    if "i" in (a, b): return "i"
    return "il"


class Ctx:
    """what the end of a block / return / break / continue / a panic mean where a statement sequence is rendered
       kind 'fn'   : mode 'total' (value) | 'opt' (option value)
       kind 'loop' : mode 'pure' (next state) | 'opt' (option state) | 'flow' (rs_flow state result); state = names
       kind 'merge': mode 'pure' | 'opt'   (the branches of a statement-`if` that only update variables)"""

    def __init__(self, tr, kind, mode, state=(), result=None):
        self.tr, self.kind, self.mode, self.state, self.result = tr, kind, mode, list(state), result

    def pack(self, env):
        vs = [env[m][0] for m in self.state]
        return "tt" if not vs else (vs[0] if len(vs) == 1 else "(" + ", ".join(vs) + ")")

    def fall(self, env, val, where):
        if self.kind == "fn":
            return self.result(env, val, where)
        if self.kind == "while":
            if val is not None and val[1] != "unit": raise self.tr.fail(where, "a value at the end of a loop body")
            return f"Some (inl {self.pack(env)})"
        if val is not None and val[1] != "unit": raise self.tr.fail(where, "a value at the end of a loop body / statement branch")
        s = self.pack(env)
        return {"pure": s, "opt": f"Some {s}", "flow": f"rs_next {s}"}[self.mode]

    def ret(self, env, val, where):
        if self.kind == "fn": return self.result(env, val, where)
        if self.kind == "while": raise self.tr.fail(where, "`return` inside a data-driven `while` is outside the subset")
        if self.kind == "loop" and self.mode == "flow":
            if val is None: raise self.tr.fail(where, "`return` without a value inside a loop")
            self.tr.ret_seen(val[1], where)
            return f"rs_return ({val[0]})"
        raise NeedMode("flow")

    def brk(self, env, where):
        if self.kind == "while": return f"Some (inr {self.pack(env)})"
        if self.kind == "loop" and self.mode == "flow": return f"rs_break {self.pack(env)}"
        if self.kind == "fn": raise self.tr.fail(where, "`break` outside a loop")
        raise NeedMode("flow")

    def cont(self, env, where):
        if self.kind in ("loop", "while"): return self.fall(env, None, where)
        if self.kind == "fn": raise self.tr.fail(where, "`continue` outside a loop")
        raise NeedMode("flow")

    def panic(self):
        if self.mode == "opt": return "None"
        if self.mode == "flow": return "rs_panic"
        raise NeedMode("opt")

    def bind(self, pat, opt, body):
        if isinstance(opt, TryOpt):
            # `e?`: `None` / `Err(_)` leaves the function with that value (an early `return`, not a panic)
            return f"match {opt} with Some {pat.lstrip(chr(39))} => {body} | None => {self.ret(opt.env, ('None', ('opt', None)), opt.where)} end"
        if self.mode == "opt": return f"let* {pat.lstrip(chr(39))} := {opt} in {body}"
        if self.mode == "flow": return f"match {opt} with Some {pat.lstrip(chr(39))} => {body} | None => rs_panic end"
        raise NeedMode("opt")


class LoopTranslator(Translator):
    """statement-level translator: `let mut` accumulators, `for` loops over ranges / slices / zip / enumerate, counted
       `while` loops, slice indexing and slicing, `Vec` results, iterator chains (`map`, `sum`, `product`, `fold`, `collect`),
       tuples, early `return` / `break` / `continue`; rendered as `fold_left` / `rs_fold_opt` / `rs_loop` over lists.
       Types: 'f' (T) | 'i' (unsigned integer, Z) | 'si' (signed integer, Z) | 'il' (integer of an unsuffixed literal, Z) | 'b' | 'unit' | ('list', t) | ('tup', (t..))
              | ('fn', (t..), t) | ('opt', t)
       cfg.calls : crate function -> (Gallina parameter, [arg types], result type)   (abstract, total; result ('opt', t) = can panic)
       cfg.defs  : crate function -> (Gallina term, [arg types], result type, partial, used abstract parameters, self fields read)   (already translated)
       Unsigned `a - b` is `rs_usub a b` (release build: wraps modulo 2^64); `+`, `*` and integer casts do not wrap."""

    def __init__(self, module, config=None):
        super().__init__(module, config)
        self.binds = [[]]
        self.gensym = 0
        self.idents = set()
        if not hasattr(self.cfg, "defs"): self.cfg.defs = {}
        self.cfg.calls.setdefault("<uninit>", ("uninit_", ["i"], "f"))      # see `.set_len`
        self.cfg.calls.setdefault("<fuel>", ("fuel_", [], "nat"))            # see `fuel_while`

    # ---- types
    def cty(self, t):
        if t == "f": return "T"
        if is_int(t): return "Z"
        if t == "b": return "bool"
        if t == "unit": return "unit"
        if t == "nat": return "nat"
        if t == "St": return "St_"
        if t[0] == "enum": return "rs_" + t[1]
        if t[0] == "struct": return "(" + " * ".join(self.cty_a(ft) for _, ft in self.cfg.struct_fields[t[1]]) + ")"
        if t[0] == "list": return f"list {self.cty_a(t[1])}"
        if t[0] == "tup": return "(" + " * ".join(self.cty_a(x) for x in t[1]) + ")"
        if t[0] == "fn": return " -> ".join(self.cty_a(x) for x in list(t[1]) + [t[2]])
        if t[0] == "opt":
            if t[1] is None: raise Unsupported("an Option whose payload type is never determined (`None` only)")
            return f"option {self.cty_a(t[1])}"
        raise Unsupported(f"internal: type {t!r}")

    def cty_a(self, t):
        s = self.cty(t)
        return s if re.fullmatch(r"\w+|\(.*\)", s) else f"({s})"

    def ty_of_rust(self, ty, node=None):
        ty = re.sub(r"\bmut\s+", "", ty)
        ty = ty.replace(" ", "")
        ty = re.sub(r"'\w+", "", ty)
        if getattr(self, "result_mode", None) == "outparams" and ty.startswith("&mut["): ty = ty[4:]      # `&mut [f64]`: see `function`
        while ty.startswith("&"): ty = ty[1:]
        if ty in self.cfg.param_types: return self.cfg.param_types[ty]
        if ty in self.generic_bounds: return self.generic_bounds[ty]
        if ty == "f64": return "f"
        if ty in ("i32", "i64", "isize", "i16", "i8", "i128"): return "si"
        if ty in INT_TYPES: return "i"
        if ty == "bool": return "b"
        m = re.fullmatch(r"\[(.*)\]", ty) or re.fullmatch(r"Vec<(.*)>", ty)
        if m: return ("list", self.ty_of_rust(m.group(1), node))
        m = re.fullmatch(r"\[(.*);\w+\]", ty)
        if m: return ("list", self.ty_of_rust(m.group(1), node))
        m = re.fullmatch(r"Option<(.*)>", ty) or re.fullmatch(r"Result<(.*),String>", ty) or (Parser.try_op and re.fullmatch(r"Result<(.*),&str>", ty))
        if m: return ("opt", self.ty_of_rust(m.group(1), node))
        if ty.startswith("(") and ty.endswith(")"):
            parts, depth, cur = [], 0, ""
            for ch in ty[1:-1]:
                if ch in "([<": depth += 1
                if ch in ")]>": depth -= 1
                if ch == "," and depth == 0: parts.append(cur); cur = ""
                else: cur += ch
            if cur: parts.append(cur)
            return ("tup", tuple(self.ty_of_rust(x, node) for x in parts))
        msg = f"type `{ty}` is outside the subset"
        raise (self.fail(node, msg) if node is not None else Unsupported(msg))

    def ident(self, name, env=None, key=None):
        nm = super().ident(name, env, key)
        reserved = LOOP_RESERVED | {d[0].split()[0] for d in self.cfg.defs.values()}
        while nm in reserved: nm += "_"
        return nm

    def fresh(self, base="g"):
        while True:
            self.gensym += 1
            nm = f"{base}{self.gensym}"
            if nm not in self.idents: return nm

    # ---- scopes for hoisted partial sub-expressions
    def scoped(self, thunk):
        self.binds.append([])
        try: r = thunk()
        finally: bs = self.binds.pop()
        return r, bs

    @staticmethod
    def no_try(o):
        if isinstance(o, TryOpt): raise o.refuse
        return o

    @staticmethod
    def bind_chain(binds, inner):
        for pat, opt in reversed(binds):
            if isinstance(opt, TryOpt): raise opt.refuse
            inner = f"let* {pat.lstrip(chr(39))} := {opt} in {inner}"
        return inner

    def hoist(self, opt, base="g"):
        g = self.fresh(base)
        self.binds[-1].append((g, opt))
        return g

    def scoped_value(self, thunk):
        """(term, type) of a sub-expression evaluated conditionally: its own panics stay inside it"""
        self.nodraw = getattr(self, "nodraw", 0) + 1
        try: (v, t), bs = self.scoped(thunk)
        finally: self.nodraw -= 1
        return v, t, bs

    # ---- patterns
    def pattern(self, pat, t, env, where, fun=False):
        """Gallina pattern for a Rust pattern of type t; binds the names in env"""
        if pat[0] == "wild": return "_"
        if pat[0] == "var" and t[0] == "struct":
            return self.bind_struct(pat[1], t, env)
        if pat[0] == "var":
            nm = self.ident(pat[1], env, pat[1]); env[pat[1]] = (nm, t); return nm
        if t[0] != "tup" or len(t[1]) != len(pat[1]): raise self.fail(where, "tuple pattern against a value of another shape")
        inner = ", ".join(self.pattern_inner(q, tt, env, where) for q, tt in zip(pat[1], t[1]))
        return f"'({inner})"

    def bind_struct(self, name, t, env):
        """a struct-typed variable is kept as one Gallina variable per field: `'(m_nrows, m_ncols, m_data)`"""
        parts = []
        for f, ft in self.cfg.struct_fields[t[1]]:
            nm = self.ident(name + "_" + f, env, name + "." + f); env[name + "." + f] = (nm, ft); parts.append(nm)
        env[name] = ("<struct>", t)
        return "'(" + ", ".join(parts) + ")"

    def pattern_inner(self, pat, t, env, where):
        s = self.pattern(pat, t, env, where)
        return s[1:] if s.startswith("'") else s

    # ---- expressions
    def expr(self, e, env):
        k = e.kind
        if k in ("paren", "ref"): return self.expr(e.e, env)
        if k == "lit":
            if e.isf or e.suffix in ("f64", "f32"):
                try: return float_literal(e.text), "f"
                except ValueError as ex: raise self.fail(e, str(ex))
            return f"{int(e.text)}%Z", ("si" if e.suffix in ("i32", "i64", "isize") else "i" if e.suffix else "il")
        if k == "path": return self.path(e, env)
        if k == "field":
            if e.recv.kind == "path" and e.recv.segs == ["self"]:
                key = "self." + e.name
                if key not in env: raise self.fail(e, f"`self.{e.name}` is not a field the translator models")
                return env[key]
            if e.recv.kind == "path" and len(e.recv.segs) == 1 and (e.recv.segs[0] + "." + e.name) in env:
                return env[e.recv.segs[0] + "." + e.name]      # a struct-typed local / parameter is kept as its fields
            raise self.fail(e, "field access on something other than `self`")
        if k == "un":
            s, t = self.expr(e.e, env)
            if e.op == "-":
                if t == "f": return f"neg O ({s})", "f"
                if is_int(t): return f"Z.opp ({s})", "si"
                raise self.fail(e, "unary minus on a non-number")
            if t != "b": raise self.fail(e, "`!` on a non-boolean (bitwise not is outside the subset)")
            return f"negb ({s})", "b"
        if k == "cast":
            s, t = self.expr(e.e, env)
            if e.ty == "f64":
                if t == "f": return s, "f"
                if is_int(t): return f"ofZ O ({s})", "f"
            elif e.ty in INT_TYPES:
                if is_int(t) and e.ty == "i64" and t == "i" and getattr(self.cfg, "wrap_i64_cast", False):
                    note = "R5: `x as i64` for an unsigned x is rs_as_i64 x: the two's-complement reinterpretation (values from 2^63 on become negative)"
                    if note not in self.notes: self.notes.append(note)
                    return f"rs_as_i64 ({s})", "si"
                if is_int(t):
                    note = "integer-to-integer `as` casts are the identity on Z (no wrap-around)"
                    if note not in self.notes: self.notes.append(note)
                    return s, ("si" if e.ty in ("i32", "i64", "isize", "i16", "i8", "i128") else "i")
                if t == "f" and e.ty in ("usize", "u64") and getattr(self.cfg, "float_to_usize", False):
                    note = "R4: `x as usize` for an f64 x is Z.max 0 (truncZ O x): truncation toward zero, negative values and NaN give 0 (the saturation at usize::MAX is not modelled)"
                    if note not in self.notes: self.notes.append(note)
                    return f"Z.max (0%Z) (truncZ O ({s}))", "i"
                if t == "f": raise self.fail(e, "float-to-integer cast is outside the subset")
            raise self.fail(e, f"cast to `{e.ty}` is outside the subset")
        if k == "bin": return self.binop(e, env)
        if k == "mcall": return self.mcall(e, env)
        if k == "call": return self.call(e, env)
        if k == "index": return self.index(e, env)
        if k == "tuple":
            parts = [self.expr(x, env) for x in e.items]
            return "(" + ", ".join(p[0] for p in parts) + ")", ("tup", tuple(p[1] for p in parts))
        if k == "tfield":
            s, t = self.expr(e.recv, env)
            if t[0] != "tup" or e.idx >= len(t[1]): raise self.fail(e, "tuple field of a non-tuple")
            n = len(t[1])
            if n == 2: return (f"fst ({s})" if e.idx == 0 else f"snd ({s})"), t[1][e.idx]
            pat = ", ".join("x_" if i == e.idx else "_" for i in range(n))
            return f"(let '({pat}) := {s} in x_)", t[1][e.idx]
        if k == "array":
            parts = [self.expr(x, env) for x in e.items]
            if not parts or any(p[1] != parts[0][1] for p in parts): raise self.fail(e, "array literal: elements of one type expected")
            return "[" + "; ".join(p[0] for p in parts) + "]", ("list", parts[0][1])
        if k == "vecrep":
            c, tc = self.expr(e.e, env); n, tn = self.expr(e.n, env)
            if not is_int(tn): raise self.fail(e.n, "repetition count must be an integer")
            if tc != "f": raise self.fail(e, "`vec![c; n]`: only f64 elements are supported (the capacity check counts 8-byte elements)")
            return self.hoist(f"rs_vec_alloc ({c}) ({n})", "l"), ("list", tc)
        if k == "if":
            c = self.cond(e.cond, env)
            if e.el is None: raise self.fail(e, "value `if` without `else`")
            def branch(b):
                # a branch that only panics has no value: None
                if b.kind == "block" and b.tail is None and b.stmts and b.stmts[-1].kind == "semi" and b.stmts[-1].e.kind == "panic" and len(b.stmts) == 1:
                    return None
                if b.kind == "block" and b.tail is not None and b.tail.kind == "panic" and not b.stmts: return None
                return self.scoped_value(lambda: (self.value_block(b, env) if b.kind == "block" else self.expr(b, env)))
            ra, rb = branch(e.th), branch(e.el)
            if ra is None and rb is None: raise self.fail(e, "both branches panic")
            if ra is not None and rb is not None:
                a, ta, ba = ra; b, tb, bb = rb
                if not self.same_type(ta, tb): raise self.fail(e, "branches of different types")
                if not ba and not bb: return f"(if {c} then {a} else {b})", ta
                return self.hoist(f"(if {c} then {self.bind_chain(ba, f'Some ({a})')} else {self.bind_chain(bb, f'Some ({b})')})"), ta
            v, t, bs = ra if ra is not None else rb
            some = self.bind_chain(bs, f"Some ({v})")
            return self.hoist(f"(if {c} then {some} else None)" if rb is None else f"(if {c} then None else {some})"), t
        if k == "iflet":
            o, to = self.expr(e.e, env)
            if to[0] != "opt" or e.el is None: raise self.fail(e, "`if let Some(x) = e`: e must be an Option and the `else` present")
            env2 = dict(env); nm = self.ident(e.name, env, e.name); env2[e.name] = (nm, to[1])
            a, ta, ba = self.scoped_value(lambda: self.value_block(e.th, env2))
            b, tb, bb = self.scoped_value(lambda: (self.value_block(e.el, env) if e.el.kind == "block" else self.expr(e.el, env)))
            if not self.same_type(ta, tb): raise self.fail(e, "branches of different types")
            if not ba and not bb: return f"(match {o} with Some {nm} => {a} | None => {b} end)", ta
            return self.hoist(f"(match {o} with Some {nm} => {self.bind_chain(ba, f'Some ({a})')} | None => {self.bind_chain(bb, f'Some ({b})')} end)"), ta
        if k == "try":
            # `e?` on an Option / Result value (Parser.try_op): bound like a hoisted sub-expression, in evaluation order; `None` returns `None`
            o, to = self.expr(e.e, env)
            if to[0] != "opt" or to[1] is None: raise self.fail(e, "`?` on something that is not an Option / Result value")
            g = self.fresh("q")
            t_ = TryOpt(f"({o})"); t_.env, t_.where = env, e
            t_.refuse = self.fail(e, "`?` inside a closure, a value block / `if` or an `&&` / `||` operand is outside the subset (only in a statement of the function body)")
            self.binds[-1].append((g, t_))
            return g, to[1]
        if k == "block": return self.value_block(e, env)
        if k == "match": raise self.fail(e, "`match` is outside the subset")
        if k == "range": raise self.fail(e, "a range is only supported as an iterator (`for i in a..b`, `(a..b).map(..)`) or a slice index")
        if k == "return": raise self.fail(e, "`return` inside an expression")
        if k in ("assert", "panic"): raise self.fail(e, "panic inside an expression")
        if k == "closure": raise self.fail(e, "closure outside `.map(..)` / `.fold(..)`")
        if k == "struct":
            # `S { f: e, .. }` / `Self { .. }` of the function's own struct, every field given: the tuple of the fields in declaration order
            st = self.m.structs.get(self.owner) if getattr(self.cfg, "struct_literals", False) else None
            if st is None or e.path[-1] not in (self.owner, "Self") or sorted(f for f, _ in st) != sorted(f for f, _ in e.fields):
                raise self.fail(e, "struct literal is outside the subset")
            vals = dict((f, self.expr(x, env)) for f, x in e.fields)
            parts = [vals[f] for f, _ in st]
            if len(parts) == 1: return parts[0]
            return "(" + ", ".join(p[0] for p in parts) + ")", ("tup", tuple(p[1] for p in parts))
        if k == "str": raise self.fail(e, "string outside a macro")
        if k == "refmut": raise self.fail(e, "`&mut` is outside the subset")
        raise self.fail(e, f"unsupported expression ({k})")

    @staticmethod
    def same_type(a, b):
        if is_int(a) and is_int(b): return True
        if isinstance(a, tuple) and isinstance(b, tuple) and a[0] == b[0]:
            if a[0] == "tup": return len(a[1]) == len(b[1]) and all(LoopTranslator.same_type(x, y) for x, y in zip(a[1], b[1]))
            if a[0] == "opt" and (a[1] is None or b[1] is None): return True
            if a[0] in ("list", "opt"): return LoopTranslator.same_type(a[1], b[1])
        return a == b

    def value_block(self, b, env):
        """`{ let ..; let ..; value }`: immutable lets only; a panic inside makes the whole block one hoisted option term"""
        env = dict(env); parts = []
        for s in b.stmts:
            if s.kind == "semi" and s.e.kind == "assert":
                (v, t), bs = self.scoped(lambda: self.expr(s.e.cond, env))
                if t != "b": raise self.fail(s, "condition is not a boolean")
                parts += [("bind", p, self.no_try(o)) for p, o in bs]
                parts.append(("bind", "_", f"guard ({v})")); continue
            if s.kind != "let" or any(q[0] == "var" and q[2] for q in self.flat_pats(s.pattern)):
                raise self.fail(s, "statement inside a value block (only immutable `let` is allowed there)")
            (v, t), bs = self.scoped(lambda: self.expr(s.e, env))
            parts += [("bind", p, self.no_try(o)) for p, o in bs]
            if s.ty is not None:
                if not self.same_type(self.ty_of_rust(s.ty, s), t): raise self.fail(s, "declared type differs from the inferred one")
                t = self.ty_of_rust(s.ty, s)
            parts.append(("let", self.pattern(s.pattern, t, env, s), v))
        if b.tail is None: raise self.fail(b, "block without a value")
        (v, t), bs = self.scoped(lambda: self.expr(b.tail, env))
        parts += [("bind", p, self.no_try(o)) for p, o in bs]
        partial = any(p[0] == "bind" for p in parts)
        inner = f"Some ({v})" if partial else v
        for kind, pat, val in reversed(parts):
            inner = f"let* {pat.lstrip(chr(39))} := {val} in {inner}" if kind == "bind" else f"let {pat} := {val} in {inner}"
        if partial: return self.hoist(f"({inner})"), t
        return (f"({inner})" if parts else inner), t

    @staticmethod
    def flat_pats(pat):
        if pat[0] == "tup": return [x for q in pat[1] for x in LoopTranslator.flat_pats(q)]
        return [pat]

    def path(self, e, env):
        segs = e.segs
        if len(segs) == 1 and segs[0] in env:
            nm, t = env[segs[0]]
            if nm == "<struct>":
                return "(" + ", ".join(env[segs[0] + "." + f][0] for f, _ in self.cfg.struct_fields[t[1]]) + ")", t
            return env[segs[0]]
        name = segs[-1]
        if segs == ["self"] and getattr(self, "result_mode", "value") == "fields": return "tt", "unit"     # `self` as the value of a `&mut self` method
        if len(segs) == 1 and name in self.cfg.consts: return self.cfg.consts[name], "f"
        if segs == ["None"]: return "None", ("opt", None)
        if segs in (["true"], ["false"]): return segs[0], "b"
        if segs[-2:] in (["f64", "EPSILON"],): return "rs_f64_epsilon O", "f"
        if segs[-2:] in (["f64", "NAN"],): return "rs_f64_nan O", "f"
        if segs[-2:] in (["f64", "MAX"],): return "rs_f64_max O", "f"
        if segs[-2:] in (["f64", "MIN"],): return "rs_f64_min O", "f"
        if segs[-2:] in (["f64", "INFINITY"],): return "rs_f64_infinity O", "f"
        if segs[-2:] in (["f64", "NEG_INFINITY"],): return "rs_f64_neg_infinity O", "f"
        if len(segs) == 1 and name in self.cfg.arrays:
            lst, elt_ty, render = self.cfg.arrays[name]
            if render != "{v}": return f"(map (fun v_ => {render.format(v='v_')}) {lst})", ("list", "f")
            return lst, ("list", "f")
        s, t = super().path(e, env)
        return s, t

    def binop(self, e, env):
        op = e.op
        if op in ("&&", "||"):
            a, ta = self.expr(e.a, env)
            b, tb, bb = self.scoped_value(lambda: self.expr(e.b, env))
            if ta != "b" or tb != "b": raise self.fail(e, f"`{op}` on non-booleans")
            if not bb: return (f"andb ({a}) ({b})" if op == "&&" else f"orb ({a}) ({b})"), "b"
            # the right operand can panic and is only evaluated when the left one does not decide
            rhs = self.bind_chain(bb, f"Some ({b})")
            return self.hoist(f"(if {a} then {rhs} else Some false)" if op == "&&" else f"(if {a} then Some true else {rhs})"), "b"
        if op.startswith("$"): return self.meta_binop(e, env)
        a, ta = self.expr(e.a, env); b, tb = self.expr(e.b, env)
        if op in ("==", "!=") and ta == ("list", "i") and tb == ("list", "i") and getattr(self.cfg, "int_list_eq", False):
            # `[a, b] == [c, d]` on arrays of integers (`m1.shape() == m2.shape()`)
            return (f"rs_zlist_eqb ({a}) ({b})" if op == "==" else f"negb (rs_zlist_eqb ({a}) ({b}))"), "b"
        if op in ("&", "|"):
            if ta != "b" or tb != "b": raise self.fail(e, f"`{op}` on non-booleans")
            return (f"andb ({a}) ({b})" if op == "&" else f"orb ({a}) ({b})"), "b"
        cmp_ = op in ("<", ">", "<=", ">=", "==", "!=")
        if ta == "f" and tb == "f":
            tab = {"+": "add O ({a}) ({b})", "-": "sub O ({a}) ({b})", "*": "mul O ({a}) ({b})", "/": "div O ({a}) ({b})",
                   "<": "ltb O ({a}) ({b})", ">": "ltb O ({b}) ({a})", "<=": "leb O ({a}) ({b})", ">=": "leb O ({b}) ({a})",
                   "==": "eqb O ({a}) ({b})", "!=": "negb (eqb O ({a}) ({b}))"}
            if op not in tab: raise self.fail(e, f"operator `{op}` on f64 is outside the subset")
            return tab[op].format(a=a, b=b), ("b" if cmp_ else "f")
        if ta == ("list", "f") and tb == "f" and op in ("*", "/", "+", "-"):
            # `Vector op f64`: element-wise
            opn = {"*": "mul", "/": "div", "+": "add", "-": "sub"}[op]
            return f"map (fun v_ => {opn} O v_ ({b})) ({a})", ta
        if is_int(ta) and is_int(tb):
            signed = "si" in (ta, tb)
            tr = int_join(ta, tb)
            if op == "-" and tr == "il":
                raise self.fail(e, "subtraction of integers whose signedness is not known (an unsuffixed literal's type is inferred by rustc): annotate a type")
            tab = {"+": "Z.add ({a}) ({b})", "*": "Z.mul ({a}) ({b})",
                   "-": ("Z.sub ({a}) ({b})" if signed else "rs_usub ({a}) ({b})"),
                   "<": "Z.ltb ({a}) ({b})", ">": "Z.ltb ({b}) ({a})", "<=": "Z.leb ({a}) ({b})", ">=": "Z.leb ({b}) ({a})",
                   "==": "Z.eqb ({a}) ({b})", "!=": "negb (Z.eqb ({a}) ({b}))"}
            if op in ("/", "%"):
                lit = self.strip(e.b)
                if lit.kind == "lit" and not lit.isf and int(lit.text) != 0:
                    return (f"Z.quot ({a}) ({b})" if op == "/" else f"Z.rem ({a}) ({b})"), tr
                return self.hoist(f"{'rs_idiv' if op == '/' else 'rs_irem'} ({a}) ({b})"), tr
            if op == "-" and not signed:
                note = "unsigned `a - b` is rs_usub a b: the release build's wrap-around modulo 2^64 (a debug build panics instead)"
                if note not in self.notes: self.notes.append(note)
            if op not in tab: raise self.fail(e, f"operator `{op}` on integers is outside the subset")
            return tab[op].format(a=a, b=b), ("b" if cmp_ else tr)
        raise self.fail(e, f"operands of `{op}` have different or non-numeric types")

    def meta_binop(self, e, env):
        """`a $op b` in a macro transcriber: the operator named by a metavariable is an abstract parameter chosen by the operand types
           (cfg.meta_ops: `$op` -> {(type a, type b): (Gallina parameter, result type)})"""
        tab = getattr(self.cfg, "meta_ops", {}).get(e.op)
        if tab is None: raise self.fail(e, f"operator `{e.op}` named by a macro metavariable is outside the subset (not in the target's table)")
        a, ta = self.struct_value(e.a, env); b, tb = self.struct_value(e.b, env)
        for (wa, wb), (cq, rt) in tab.items():
            if self.same_type(ta, wa) and self.same_type(tb, wb) and (ta == "f") == (wa == "f") and (tb == "f") == (wb == "f"):
                if cq not in self.used_calls: self.used_calls.append(cq)
                self.cfg.calls.setdefault("<metaop>" + e.op + cq, (cq, [wa, wb], rt))
                t_ = f"{cq} ({a}) ({b})"
                if rt[0] == "opt": return self.hoist(f"({t_})", "r"), rt[1]
                return t_, rt
        raise self.fail(e, f"operands of `{e.op}` have types the target's table does not list")

    def window_of(self, e, env):
        """an lvalue `x[i]` / `self[i]` of a struct whose `IndexMut<usize>::index_mut` was translated as a window (cfg.windows: struct ->
           (condition, field, lo, hi) read off `assert!(c); &mut self.f[lo..hi]`): returns (variable prefix, field name, Gallina term of
           the window's start, option term reading the window)"""
        e = self.strip(e)
        if e.kind != "index" or e.idx.kind in ("range", "array"): return None
        rv = self.strip(e.recv)
        if rv.kind != "path" or len(rv.segs) != 1: return None
        v = rv.segs[0]
        if v == "self" and "self" not in env:
            sname = (self.cfg.param_types.get("Self") or ("", None))[1]; pre = "self."
        elif env.get(v, ("",))[0] == "<struct>":
            sname = env[v][1][1]; pre = v + "."
        else: return None
        w = getattr(self.cfg, "windows", {}).get(sname)
        if w is None: return None
        i, ti = self.expr(e.idx, env)
        if not is_int(ti): raise self.fail(e.idx, "index must be an integer")
        fn, arg, cond, field, lo, hi = w
        env2 = {("self." + f): env[pre + f] for f, _ in self.cfg.struct_fields[sname] if (pre + f) in env}
        env2[arg] = (f"({i})", "i")
        c, tc = self.expr(cond, env2); l, tl = self.expr(lo, env2); h, th = self.expr(hi, env2)
        data = env[pre + field][0]
        return pre, field, l, f"(if {c} then rs_slice ({data}) ({l}) ({h}) else None)"

    def index(self, e, env):
        rv = self.strip(e.recv)
        if rv.kind == "path" and len(rv.segs) == 1 and env.get(rv.segs[0], ("",))[0] == "<struct>" and "self.index" in self.cfg.defs \
                and e.idx.kind not in ("range", "array"):
            # `m[i]` for a struct-typed variable through the translated `Index<usize>::index`
            term, argt, rt, partial, used, fields = self.cfg.defs["self.index"]
            self._env = env
            for u in used:
                if u not in self.used_calls: self.used_calls.append(u)
            s_ = f"{term} " + " ".join([f"({env[rv.segs[0] + '.' + f[5:]][0]})" for f in fields] + self.args_of(e, [e.idx], argt))
            return (self.hoist(f"({s_})", "r") if partial else f"({s_})"), rt
        if rv.kind == "path" and rv.segs == ["self"] and not (getattr(self.cfg, "newtype_index", False) and env.get("self", ("", ""))[1][:1] == ("list",)):
            # (cfg.newtype_index: `self[i]` in a method of a newtype around Vec<f64> goes through Deref to the wrapped Vec, like `self.len()`)
            if "self.index" not in self.cfg.defs or e.idx.kind in ("range", "array"): raise self.fail(e, "`self[..]` is only supported as `self[i]` through a translated `Index<usize>::index`")
            return self.apply(e, "self.index", [e.idx], env)
        r, tr = self.expr(e.recv, env)
        if tr[0] != "list": raise self.fail(e, "indexing something that is not a slice / Vec")
        ix = self.strip(e.idx) if e.idx.kind in ("paren",) else e.idx
        if ix.kind == "range":
            if ix.incl: raise self.fail(ix, "inclusive slice range is outside the subset")
            lo = self.expr(ix.lo, env) if ix.lo is not None else None
            hi = self.expr(ix.hi, env) if ix.hi is not None else None
            for x in (lo, hi):
                if x is not None and not is_int(x[1]): raise self.fail(ix, "slice bounds must be integers")
            if lo is None and hi is None: return r, tr
            if hi is None: return self.hoist(f"rs_slice_from ({r}) ({lo[0]})", "sl"), tr
            if lo is None: return self.hoist(f"rs_slice_to ({r}) ({hi[0]})", "sl"), tr
            return self.hoist(f"rs_slice ({r}) ({lo[0]}) ({hi[0]})", "sl"), tr
        if ix.kind == "array": raise self.fail(e, "matrix indexing `m[[i, j]]` is outside the subset")
        i, ti = self.expr(ix, env)
        if not is_int(ti): raise self.fail(e.idx, "index must be an integer")
        return self.hoist(f"rs_get ({r}) ({i})"), tr[1]

    # ---- iterator chains: (list term, element type) or None
    ITER_ID = ("iter", "into_iter", "cloned", "copied", "collect", "to_vec", "clone", "to_owned", "as_slice")

    def iter_of(self, e, env):
        e = self.strip(e)
        if e.kind == "range":
            if e.lo is None or e.hi is None: raise self.fail(e, "unbounded range as an iterator")
            lo, tl = self.expr(e.lo, env); hi, th = self.expr(e.hi, env)
            if not (is_int(tl) and is_int(th)): raise self.fail(e, "only integer ranges are supported")
            t = "si" if "si" in (tl, th) else "i"      # an unannotated counter is taken unsigned (it indexes / counts)
            return (f"rs_range ({lo}) ({hi})" if e.incl else f"rs_range_excl ({lo}) ({hi})"), t
        if e.kind == "mcall":
            nm = e.name
            if nm in self.ITER_ID and not e.args:
                return self.iter_of(e.recv, env)
            if nm == "zip" and len(e.args) == 1:
                a, ta = self.iter_of(e.recv, env); b, tb = self.iter_of(e.args[0], env)
                return f"combine ({a}) ({b})", ("tup", (ta, tb))
            if nm == "enumerate" and not e.args:
                a, ta = self.iter_of(e.recv, env)
                return f"rs_enumerate ({a})", ("tup", ("i", ta))
            if nm == "rev" and not e.args:
                a, ta = self.iter_of(e.recv, env)
                return f"rev ({a})", ta
            if nm in ("take", "skip") and len(e.args) == 1:
                a, ta = self.iter_of(e.recv, env); n, tn = self.expr(e.args[0], env)
                if not is_int(tn): raise self.fail(e, f"`.{nm}` count must be an integer")
                return f"rs_{nm} ({a}) ({n})", ta
            if nm == "map" and len(e.args) == 1:
                a, ta = self.iter_of(e.recv, env)
                f, tr, partial = self.closure_fn(e.args[0], [ta], env)
                if partial: return self.hoist(f"rs_map_opt ({f}) ({a})", "l"), tr
                return f"map ({f}) ({a})", tr
        s, t = self.expr(e, env)
        if t[0] != "list": raise self.fail(e, "an iterator / slice expected")
        return s, t[1]

    def closure_fn(self, cl, argtypes, env, wrap=False):
        """(fun .. => body, result type, partial?)"""
        cl = self.strip(cl)
        if cl.kind == "path" and cl.segs[-2:] in (["f64", "max"], ["f64", "min"]) and all(t == "f" for t in argtypes) and len(argtypes) == 2:
            return f"f{cl.segs[-1]} O", "f", False
        if cl.kind == "path" and len(cl.segs) == 1 and cl.segs[0] in env and env[cl.segs[0]][1][0] == "fn":
            return env[cl.segs[0]][0], env[cl.segs[0]][1][2], False
        if cl.kind != "closure": raise self.fail(cl, "a closure expected")
        if len(cl.params) != len(argtypes): raise self.fail(cl, "closure with an unexpected number of parameters")
        env2 = dict(env); pats = []
        for p, t in zip(cl.params, argtypes):
            pats.append(self.pattern(p, t, env2, cl))
        self.nodraw = getattr(self, "nodraw", 0) + 1
        try: (v, t), bs = self.scoped(lambda: self.expr(cl.body, env2))
        finally: self.nodraw -= 1
        body = self.bind_chain(bs, f"Some ({v})") if (bs or wrap) else v
        return f"fun {' '.join(pats)} => {body}", t, bool(bs)

    def mcall(self, e, env):
        name, args = e.name, e.args
        recv = self.strip(e.recv)
        if name in getattr(self.cfg, "draw_methods", {}): return self.draw(e, env)
        if name.startswith("$"): return self.meta_call(e, env)
        if name == "split_at" and len(args) == 1:
            # `x.split_at(i)`: panics unless i <= len
            l, t = self.iter_of(e.recv, env); i, ti = self.expr(args[0], env)
            if not is_int(ti): raise self.fail(e, "`.split_at(i)`: an integer position expected")
            return self.hoist(f"rs_split_at ({l}) ({i})", "p"), ("tup", (("list", t), ("list", t)))
        if name == "split_first" and not args:
            l, t = self.iter_of(e.recv, env)
            return f"rs_split_first ({l})", ("opt", ("tup", (t, ("list", t))))
        if recv.kind == "path" and recv.segs == ["self"] and "self" not in env: return self.self_call(e, env)
        if recv.kind == "field" and recv.recv.kind == "path" and recv.recv.segs == ["self"] and (recv.name, name) in getattr(self.cfg, "field_methods", {}):
            # `self.f.m(args)` for a field f the translator does not model: the method is an abstract parameter (cfg.field_methods: (f, m) -> call-table key)
            key = self.cfg.field_methods[(recv.name, name)]
            cq, argt, rt = self.cfg.calls[key]
            if not argt and not args and not isinstance(rt, tuple):      # an argument-less pure method: a value that depends on the field only
                if cq not in self.used_calls: self.used_calls.append(cq)
                return cq, rt
            r = self.apply(e, key, args, env)
            if r is not None: return r
        r = self.value_method(e, env)
        if r is not None: return r
        if name in ("clone", "to_owned") and not args and recv.kind == "path" and len(recv.segs) == 1 and env.get(recv.segs[0], ("",))[0] == "<struct>":
            return self.expr(recv, env)      # a clone of a struct value is the value
        if name in ("sum", "product") and not args:
            l, t = self.iter_of(e.recv, env)
            if t != "f": raise self.fail(e, f"only `.{name}()` of f64 terms is supported")
            return (f"rs_iter_sum O ({l})" if name == "sum" else f"rs_iter_product O ({l})"), "f"
        if name == "fold" and len(args) == 2:
            l, t = self.iter_of(e.recv, env)
            init, ti = self.expr(args[0], env)
            f, tr, partial = self.closure_fn(args[1], [ti, t], env)
            if not self.same_type(tr, ti): raise self.fail(e, "`.fold`: the closure's result differs from the initial value's type")
            if partial: return self.hoist(f"rs_fold_opt ({f}) ({l}) ({init})"), ti
            return f"fold_left ({f}) ({l}) ({init})", ti
        if name == "len" and not args:
            l, t = self.iter_of(e.recv, env)
            return f"rs_len ({l})", "i"
        if name == "all" and len(args) == 1 and getattr(self.cfg, "iter_all", False):
            # `it.all(|p| c)`: forallb (short-circuit evaluation is unobservable for a closure that cannot panic)
            l, t = self.iter_of(e.recv, env)
            f, tr_, partial = self.closure_fn(args[0], [t], env)
            if partial or tr_ != "b": raise self.fail(e, "`.all(..)`: a closure to bool that cannot panic expected")
            return f"forallb ({f}) ({l})", "b"
        if name in self.ITER_ID + ("zip", "enumerate", "rev", "take", "skip", "map") :
            l, t = self.iter_of(e, env)
            return l, ("list", t)
        r, tr = self.expr(e.recv, env)
        if tr[0] == "opt" and ((name == "unwrap" and not args) or (name == "expect" and len(args) == 1 and self.strip(args[0]).kind == "str")):
            # `None` / `Err(_)` panics
            if tr[1] is None: raise self.fail(e, "`.unwrap()` of a bare `None`")
            return self.hoist(r, "u"), tr[1]
        if tr[0] == "opt" and name == "as_ref" and not args and getattr(self.cfg, "option_as_ref", False):
            return r, tr      # `opt.as_ref()`: references are transparent
        if tr[0] == "opt" and name in ("is_none", "is_some") and not args:
            return f"(match {r} with Some _ => {'false' if name == 'is_none' else 'true'} | None => {'true' if name == 'is_none' else 'false'} end)", "b"
        if tr[0] == "list" and name in getattr(self.cfg, "list_methods", {}):
            # `v.m(args)` for a method of the list-like newtype (`Vector::prod`) the target keeps abstract (cfg.list_methods: m -> (parameter, [arg types], result type))
            cq, argt, rt = self.cfg.list_methods[name]
            self._env = env
            if cq not in self.used_calls: self.used_calls.append(cq)
            if cq not in [c[0] for c in self.cfg.calls.values()]: self.cfg.calls["<list>" + name] = (cq, [tr] + list(argt), rt)
            s_ = f"{cq} ({r}) " + " ".join(self.args_of(e, args, argt))
            if rt[0] == "opt": return self.hoist(f"({s_})", "r"), rt[1]
            return f"({s_})", rt
        if tr[0] == "list" and name == "repeat" and len(args) == 1:
            a, ta = self.expr(args[0], env)
            if not is_int(ta): raise self.fail(e, "`.repeat(n)`: an integer count expected")
            note = "`v.repeat(n)` is rs_repeat v n = n copies of v one after the other (the capacity overflow of the result is not modelled)"
            if note not in self.notes: self.notes.append(note)
            return f"rs_repeat ({r}) ({a})", tr
        if name in ("min", "max") and len(args) == 1:
            a, ta = self.expr(args[0], env)
            if tr == "f" and ta == "f": return f"f{name} O ({r}) ({a})", "f"
            if is_int(tr) and is_int(ta): return f"Z.{name} ({r}) ({a})", int_join(tr, ta)
            raise self.fail(e, "receiver and argument of different types")
        if is_int(tr):
            if name == "abs" and not args: return f"Z.abs ({r})", "si"
            if name == "pow" and len(args) == 1:
                a, ta = self.expr(args[0], env)
                if not is_int(ta): raise self.fail(args[0], "integer exponent expected")
                return f"Z.pow ({r}) ({a})", tr
        if tr != "f": raise self.fail(e, f"method `.{name}` on this receiver is outside the subset")
        if name in F1 and not args: return f"f1 O {F1[name]} ({r})", "f"
        if name == "sqrt" and not args: return f"sqrt O ({r})", "f"
        if name == "abs" and not args: return f"abs O ({r})", "f"
        if name == "is_infinite" and not args and getattr(self.cfg, "float_classify", False):
            return f"rs_is_infinite O ({r})", "b"      # core: (self == INFINITY) | (self == NEG_INFINITY)
        if name == "powi" and len(args) == 1:
            a, ta = self.expr(args[0], env)
            if not is_int(ta): raise self.fail(args[0], "powi exponent must be an integer expression")
            return f"powi O ({r}) ({a})", "f"
        if name == "powf" and len(args) == 1:
            a, ta = self.expr(args[0], env)
            if ta != "f": raise self.fail(args[0], "powf exponent must be f64")
            base = self.strip(e.recv)
            if base.kind == "lit" and base.isf and Fraction(base.text) == 2:
                note = "R1: `2_f64.powf(e)` rendered as exp2(e) (what rustc/LLVM emits)"
                if note not in self.notes: self.notes.append(note)
                return f"f1 O Exp2 ({a})", "f"
            return f"f2 O Pow ({r}) ({a})", "f"
        raise self.fail(e, f"method `.{name}` with {len(args)} argument(s) is outside the subset")

    def args_of(self, e, args, argt):
        if len(argt) != len(args): raise self.fail(e, "wrong number of arguments")
        out = []
        for a, want in zip(args, argt):
            if want[0] == "fn" and want[2][0] == "opt":
                # a closure handed to a function translated with cfg.partial_fn_params: it may panic (T -> option T)
                f, tr, partial = self.closure_fn(a, list(want[1]), env=self._env, wrap=True)
                if not self.same_type(tr, want[2][1]): raise self.fail(a, "closure argument of the wrong type")
                out.append(f"({f})"); continue
            if want[0] == "fn":
                f, tr, partial = self.closure_fn(a, list(want[1]), env=self._env)
                if partial or not self.same_type(tr, want[2]): raise self.fail(a, "closure argument of the wrong type (or one that can panic)")
                out.append(f"({f})"); continue
            s, t = (self.iter_of(a, self._env) if want[0] == "list" else self.expr(a, self._env))
            if want[0] == "list": t = ("list", t)
            if not self.same_type(t, want): raise self.fail(a, "argument of the wrong type")
            out.append(f"({s})")
        return out

    def apply(self, e, name, args, env):
        """call of a crate function: a definition translated earlier (cfg.defs) or an abstract parameter (cfg.calls)"""
        self._env = env
        if name in self.cfg.defs:
            term, argt, rt, partial, used, fields = self.cfg.defs[name]
            for u in used:
                if u not in self.used_calls: self.used_calls.append(u)
            for f in fields:
                if f not in env: raise self.fail(e, f"`{name}` reads `{f}`, which is not modelled here")
            s = f"{term} " + " ".join([f"({env[f][0]})" for f in fields] + self.args_of(e, args, argt))
            if partial: return self.hoist(f"({s})", "r"), rt
            return f"({s})" if args else s, rt
        if name in self.cfg.calls:
            cq, argt, rt = self.cfg.calls[name]
            if not argt: raise self.fail(e, "random draws are outside the subset here")
            if cq not in self.used_calls: self.used_calls.append(cq)
            s = f"{cq} " + " ".join(self.args_of(e, args, argt))
            if rt[0] == "opt": return self.hoist(f"({s})", "r"), rt[1]
            if rt[0] == "optval": return f"({s})", ("opt", rt[1])      # returns an Option / Result VALUE (the function itself does not panic)
            return f"({s})", rt
        return None

    def call(self, e, env):
        name = "::".join(e.path); args = e.args
        if len(e.path) == 1 and name in env and env[name][1][0] == "fn":
            f, ft = env[name]
            self._env = env
            if ft[2][0] == "opt": return self.hoist(f"({f} " + " ".join(self.args_of(e, args, list(ft[1]))) + ")", "r"), ft[2][1]
            return f"{f} " + " ".join(self.args_of(e, args, list(ft[1]))), ft[2]
        if name in ("f64::min", "f64::max") and len(args) == 2:
            a, ta = self.expr(args[0], env); b, tb = self.expr(args[1], env)
            if ta != "f" or tb != "f": raise self.fail(e, "f64 arguments expected")
            return f"f{e.path[-1]} O ({a}) ({b})", "f"
        if name in ("Vec::with_capacity", "Vector::with_capacity") and len(args) == 1:
            self.expr(args[0], env)
            return "[]", ("list", "f")
        if name in ("Vec::new", "Vector::new", "Vector::empty") and not args: return "[]", ("list", "f")
        if name == "Vector::new" and len(args) == 1:      # the newtype around Vec<f64>
            l, t = self.expr(args[0], env)
            if t != ("list", "f"): raise self.fail(e, "`Vector::new(v)`: a Vec<f64> expected")
            return l, t
        if name in ("Some", "Ok") and len(args) == 1:
            a, ta = self.expr(args[0], env)
            return f"Some ({a})", ("opt", ta)
        if name == "Err" and len(args) == 1: return "None", ("opt", None)      # the error value is not modelled: only `.unwrap()` looks at it
        if name in ("cmp::min", "cmp::max", "std::cmp::min", "std::cmp::max") and len(args) == 2:
            a, ta = self.expr(args[0], env); b, tb = self.expr(args[1], env)
            if not (is_int(ta) and is_int(tb)): raise self.fail(e, "integer arguments expected")
            return f"Z.{e.path[-1]} ({a}) ({b})", int_join(ta, tb)
        if name in ("Vector::ones", "Vector::zeros") and len(args) == 1:
            n, tn = self.expr(args[0], env)
            if not is_int(tn): raise self.fail(e, "integer length expected")
            return self.hoist(f"rs_vec_alloc ({'one O' if name.endswith('ones') else 'zero O'}) ({n})", "l"), ("list", "f")
        if name in ("Vector::from", "Vec::from") and len(args) == 1:
            l, t = self.iter_of(args[0], env); return l, ("list", t)
        r = self.apply(e, e.path[-1] if name not in self.cfg.defs and name not in self.cfg.calls else name, args, env)
        if r is not None: return r
        raise self.fail(e, f"call of `{name}` is outside the subset (not in the target's table of crate functions)")

    def draw(self, e, env):
        """a random draw `obj.sample()` / `obj.sample_n(n)` (cfg.draw_methods: method -> (Gallina parameter, receiver type, [arg types], result type)):
           the generator's state is the hidden variable rng_ threaded through the function (rule R6): `let* (d, rng_) := sample_ obj rng_ in`;
           `None` = the draw does not return (a panic, or a sampler that never accepts)"""
        cq, rtype, argt, rt = self.cfg.draw_methods[e.name]
        if "<rng>" not in env: raise self.fail(e, "a random draw where the generator state is not threaded")
        if getattr(self, "nodraw", 0): raise self.fail(e, "a random draw inside a closure, a value `if` or an `&&` / `||` operand is outside the subset (the order of the draws would not be the statement order)")
        r, tr = self.expr(e.recv, env)
        if not self.same_type(tr, rtype): raise self.fail(e.recv, "random draw from something that is not the target's sampler object")
        self._env = env
        args = self.args_of(e, e.args, argt)
        if cq not in self.used_draws: self.used_draws.append(cq)
        note = "R6: a random draw `obj.sample()` is `let* (d, rng_) := sample_ obj rng_ in ..`: the generator state rng_ (an abstract type St_) is threaded through the statements in execution order and returned with the result; None = the draw does not return"
        if note not in self.notes: self.notes.append(note)
        st = env["<rng>"][0]
        g = self.fresh("d")
        self.binds[-1].append((f"({g}, {st})", f"{cq} ({r}) " + "".join(a + " " for a in args) + st))
        return g, rt

    def has_draw(self, node):
        dm = getattr(self.cfg, "draw_methods", {})
        if not dm: return False
        def ex(n):
            if isinstance(n, N):
                if n.kind == "mcall" and n.name in dm: return True
                return any(ex(v) for k, v in n.__dict__.items() if k not in ("kind", "pos", "end"))
            if isinstance(n, (list, tuple)): return any(ex(v) for v in n)
            return False
        return ex(node)

    def struct_value(self, e, env):
        """(term, struct type) of a struct-valued receiver: `self` (its modelled fields, all of them), a struct-typed variable, or an expression"""
        r = self.strip(e)
        if r.kind == "path" and r.segs == ["self"] and "self" not in env:
            for sname, fs in getattr(self.cfg, "struct_fields", {}).items():
                if all(("self." + f) in env for f, _ in fs) and self.cfg.param_types.get("Self") == ("struct", sname):
                    return "(" + ", ".join(env["self." + f][0] for f, _ in fs) + ")", ("struct", sname)
            raise self.fail(e, "`self` as a value: not every field of the struct is modelled here")
        return self.expr(e, env)

    def meta_call(self, e, env):
        """`recv.$m(args)` in a macro transcriber: the method named by a metavariable is an abstract parameter of the target's table
           (cfg.meta_methods: `$m` -> (Gallina parameter, receiver type, [arg types], result type)); the receiver is passed as a value"""
        tab = getattr(self.cfg, "meta_methods", {})
        if e.name not in tab: raise self.fail(e, f"method `{e.name}` named by a macro metavariable is outside the subset (not in the target's table)")
        cq, rt_recv, argt, rt = tab[e.name]
        r, tr = self.struct_value(e.recv, env)
        if not self.same_type(tr, rt_recv): raise self.fail(e.recv, "receiver of the wrong type")
        self._env = env
        if cq not in self.used_calls: self.used_calls.append(cq)
        if cq not in [c[0] for c in self.cfg.calls.values()]: self.cfg.calls["<meta>" + e.name] = (cq, [rt_recv] + list(argt), rt)
        s = f"{cq} ({r}) " + " ".join(self.args_of(e, e.args, argt))
        if rt[0] == "opt": return self.hoist(f"({s})", "r"), rt[1]
        return f"({s})", rt

    def value_method(self, e, env):
        """`x.m(args)` for a method `m` translated earlier (cfg.defs `self.m`, value result) applied to a struct-typed variable, a
           struct-valued expression (its fields are bound first) or, for a method of a newtype, to the wrapped value"""
        key = "self." + e.name
        if key not in getattr(self.cfg, "defs", {}) or e.name in getattr(self.cfg, "mut_methods", set()): return None
        term, argt, rt, partial, used, fields = self.cfg.defs[key]
        recv = self.strip(e.recv)
        if recv.kind == "path" and recv.segs == ["self"] and "self" not in env: return None      # `self.m(..)`: self_call
        if fields == ["self"]:
            r, tr = self.iter_of(e.recv, env)
            fargs = [f"({r})"]
        else:
            r, tr = self.expr(e.recv, env)
            if tr[0] != "struct": return None
            fs = self.cfg.struct_fields[tr[1]]
            if recv.kind == "path" and len(recv.segs) == 1 and env.get(recv.segs[0], ("",))[0] == "<struct>":
                names = {f: env[recv.segs[0] + "." + f][0] for f, _ in fs}
            else:
                names = {f: self.fresh("s_" + f) for f, _ in fs}
                self.binds[-1].append(("(" + ", ".join(names[f] for f, _ in fs) + ")", f"Some ({r})"))
            fargs = [f"({names[f[5:]]})" for f in fields]
        for u in used:
            if u not in self.used_calls: self.used_calls.append(u)
        self._env = env
        s = f"{term} " + " ".join(fargs + self.args_of(e, e.args, argt))
        if partial: return self.hoist(f"({s})", "r"), rt
        return f"({s})", rt

    def self_call(self, e, env):
        key = "self." + e.name
        if e.name in getattr(self.cfg, "abstract_self_methods", {}) and key not in self.cfg.defs:
            # `self.m(args)` for a method the target keeps abstract (cfg.abstract_self_methods: m -> (Gallina parameter, [arg types], result
            # type)): the parameter takes the receiver as a struct VALUE (all its fields), then the arguments
            cq, argt, rt = self.cfg.abstract_self_methods[e.name]
            r, tr = self.struct_value(e.recv, env)
            self._env = env
            if cq not in self.used_calls: self.used_calls.append(cq)
            if cq not in [c[0] for c in self.cfg.calls.values()]: self.cfg.calls["<self>" + e.name] = (cq, [tr] + list(argt), rt)
            s_ = f"{cq} ({r}) " + " ".join(self.args_of(e, e.args, argt))
            if rt[0] == "opt": return self.hoist(f"({s_})", "r"), rt[1]
            return f"({s_})", rt
        if e.name in getattr(self.cfg, "mut_methods", set()):
            raise self.fail(e, f"`self.{e.name}(..)` mutates `self`: only supported as a statement (or ending a `&mut self` method)")
        r = self.apply(e, key, e.args, env) if (key in self.cfg.defs or key in self.cfg.calls) else None
        if r is not None: return r
        raise self.fail(e, f"`self.{e.name}(..)` is outside the subset (not in the target's table)")

    # ---- analyses
    @staticmethod
    def root_var(t):
        while t.kind in ("paren", "ref", "index"): t = t.e if t.kind in ("paren", "ref") else t.recv
        if t.kind == "path" and len(t.segs) == 1: return t.segs[0]
        if t.kind == "field" and t.recv.kind == "path" and t.recv.segs == ["self"]: return "self." + t.name
        if t.kind == "field" and t.recv.kind == "path" and len(t.recv.segs) == 1: return t.recv.segs[0] + "." + t.name
        return None

    MUTATORS = ("push", "extend", "reverse", "extend_from_slice", "set_len", "swap")

    @staticmethod
    def is_mem_swap(e):
        return (e.kind == "call" and e.path in (["swap"], ["mem", "swap"], ["std", "mem", "swap"]) and len(e.args) == 2
                and all(a.kind == "refmut" for a in e.args))

    def assigned(self, node, local):
        """Rust variables (declared outside `node`) that `node` assigns"""
        out = []
        def add(v):
            if v is not None and v not in local and v not in out: out.append(v)
        def walk_block(b, local):
            local = set(local)
            for s in b.stmts:
                if s.kind == "let":
                    walk_expr(s.e, local); local |= set(Parser.pattern_names(s.pattern))
                elif s.kind in ("assign", "opassign"):
                    v = self.root_var(s.target)
                    if v is None: raise self.fail(s.target, "assignment target outside the subset")
                    tg = self.strip(s.target)
                    if tg.kind == "index" and self.strip(tg.recv).kind == "index" and getattr(self.cfg, "windows", None):
                        # `x[i][j] = e` through a window: the window's field of x is what changes
                        if v not in local:
                            for w in self.cfg.windows.values(): add(("self." if v == "self" else v + ".") + w[3])
                    elif v not in local: add(v)
                    walk_expr(s.e, local)
                elif s.kind == "for":
                    walk_block(s.body, local | set(s.pat))
                elif s.kind == "while":
                    walk_block(s.body, local)
                elif s.kind == "semi":
                    walk_expr(s.e, local)
            if b.tail is not None: walk_expr(b.tail, local)
        def walk_expr(e, local):
            if e is None: return
            if e.kind == "block": walk_block(e, local); return
            if e.kind in ("if", "iflet"):
                walk_block(e.th, local)
                if e.el is not None: walk_expr(e.el, local)
                return
            if e.kind == "mcall" and e.name in self.MUTATORS:
                v = self.root_var(e.recv)
                if v is not None and v not in local: add(v)
            if e.kind == "mcall" and e.name == "for_each" and getattr(self.cfg, "windows", None):
                r = self.strip(e.recv)
                if r.kind == "mcall" and r.name == "zip": r = self.strip(r.recv)
                if r.kind == "mcall" and r.name == "iter_mut":
                    v = self.root_var(r.recv)
                    if v is not None and v not in local:
                        for w in self.cfg.windows.values(): add(("self." if v == "self" else v + ".") + w[3])
            if e.kind == "mcall" and e.name in getattr(self.cfg, "mut_methods", set()):
                v = self.root_var(e.recv)
                if v is not None and v not in local:
                    for f in self.cfg.defs["self." + e.name][5]: add(v + "." + f[5:])
            if self.is_mem_swap(e):
                for a in e.args:
                    v = self.root_var(a.e)
                    if v is not None and v not in local: add(v)
            if e.kind in ("paren", "ref"): walk_expr(e.e, local)
        if node.kind == "block": walk_block(node, set(local))
        else: walk_expr(node, set(local))
        if self.has_draw(node): add("<rng>")
        return out

    def ret_seen(self, t, where):
        if self.ret_type is None: self.ret_type = t
        elif not self.same_type(self.ret_type, t): raise self.fail(where, "results of different types")
        elif self.ret_type[0] == "opt" and self.ret_type[1] is None: self.ret_type = t

    # ---- statements
    def with_modes(self, modes, thunk):
        """render with the first context mode that suffices (a panic needs 'opt', break / return need 'flow')"""
        rank = {"total": 0, "pure": 0, "opt": 1, "flow": 2}
        i = 0
        while True:
            g, nb, uc, rt = self.gensym, [list(b) for b in self.binds], list(self.used_calls), self.ret_type
            try: return modes[i], thunk(modes[i])
            except NeedMode as nm:
                self.gensym, self.binds, self.used_calls, self.ret_type = g, nb, uc, rt
                need = rank[nm.what]
                while i < len(modes) and rank[modes[i]] < need: i += 1
                if i >= len(modes): raise

    def flush(self, binds, body, K):
        for pat, opt in reversed(binds): body = K.bind(pat, opt, body)
        return body

    def stmt_value(self, e, env, K, k):
        """evaluate expression e in its own scope, then continue with k((term, type)); its panics go to K"""
        (v, t), bs = self.scoped(lambda: self.expr(e, env))
        if any(not isinstance(o, TryOpt) for _, o in bs) and K.mode in ("total", "pure"): raise NeedMode("opt")
        return self.flush(bs, k((v, t)), K)

    def seq(self, stmts, tail, env, K, where):
        if not stmts:
            if tail is None: return K.fall(env, None, where)
            if (tail.kind == "mcall" and tail.name in getattr(self.cfg, "mut_methods", set()) and self.strip(tail.recv).kind == "path"
                    and self.strip(tail.recv).segs == ["self"] and "self" not in env and getattr(self, "result_mode", "value") == "fields" and K.kind == "fn"):
                # `self.m(args)` ending a `&mut self` method that returns `&mut Self`: the mutation, then `self`
                return self.seq([N("semi", tail.pos, tail.end, e=tail)], None, env, K, where)
            if (tail.kind == "mcall" and tail.name in getattr(self.cfg, "mut_methods", set()) and self.strip(tail.recv).kind == "path"
                    and env.get(self.root_var(tail.recv), ("",))[0] == "<struct>" and K.kind != "fn"):
                # `{ ..; x.m(args) }` ending a loop body / branch: a unit-valued mutation of a struct-typed local is a statement
                return self.seq([N("semi", tail.pos, tail.end, e=tail)], None, env, K, where)
            if tail.kind == "mcall" and tail.name in self.MUTATORS and self.root_var(tail.recv) in env:
                # `{ ..; v.swap(a, b) }`: a unit-valued mutation in tail position is a statement
                return self.seq([N("semi", tail.pos, tail.end, e=tail)], None, env, K, where)
            return self.tail(tail, env, K)
        s, rest = stmts[0], stmts[1:]
        go = lambda env2: self.seq(rest, tail, env2, K, where)
        k = s.kind
        if k == "let":
            env2 = dict(env)
            if K.kind in ("loop", "merge"):
                for nmv in Parser.pattern_names(s.pattern):
                    if nmv in K.state: raise self.fail(s, f"a `let` that shadows `{nmv}`, which this loop / branch assigns, is outside the subset")
            def after(vt):
                v, t = vt
                if s.ty is not None:
                    want = self.ty_of_rust(s.ty, s)
                    if v == "[]" and want[0] == "list": t = want      # `let v: Vec<Vec<f64>> = Vec::with_capacity(n);`: the annotation gives the element type
                    if not self.same_type(want, t): raise self.fail(s, "declared type differs from the inferred one")
                    t = want      # the annotation decides the signedness of an integer literal
                pat = self.pattern(s.pattern, t, env2, s)
                return f"let {pat} := {v} in " + go(env2)
            return self.stmt_value(s.e, env, K, after)
        if k in ("assign", "opassign"):
            return self.assign(s, env, K, go)
        if k == "for": return self.for_loop(s, env, K, go)
        if k == "while": return self.while_loop(s, env, K, go)
        e = s.e
        if e.kind == "assert":
            def after(vt):
                if vt[1] != "b": raise self.fail(e, "condition is not a boolean")
                return f"if {vt[0]} then {go(env)} else {K.panic()}"
            return self.stmt_value(e.cond, env, K, after)
        if e.kind == "panic": return K.panic()
        if e.kind == "return":
            if e.e is None: return K.ret(env, None, e)
            return self.stmt_value(e.e, env, K, lambda vt: K.ret(env, vt, e))
        if e.kind == "break":
            if e.e is not None: raise self.fail(e, "`break` with a value is outside the subset")
            return K.brk(env, e)
        if e.kind == "continue": return K.cont(env, e)
        if e.kind in ("if", "iflet", "block"):
            return self.stmt_if(e, rest, tail, env, K, where)
        if e.kind == "match": raise self.fail(e, "`match` is outside the subset")
        if self.is_mem_swap(e):
            # `swap(&mut a, &mut b)` (std::mem::swap) of two variables / fields of the same type
            va, vb = self.root_var(e.args[0].e), self.root_var(e.args[1].e)
            if va is None or vb is None or va not in env or vb not in env or va == vb or any(self.strip(a.e).kind not in ("path", "field") for a in e.args):
                raise self.fail(e, "`swap(&mut a, &mut b)`: two distinct variables / fields expected")
            (na, ta), (nb, tb) = env[va], env[vb]
            if not self.same_type(ta, tb) or na == "<struct>": raise self.fail(e, "`swap`: values of one (non-struct) type expected")
            return f"let '({na}, {nb}) := ({nb}, {na}) in " + go(env)
        if e.kind == "mcall" and e.name in getattr(self.cfg, "mut_methods", set()) and self.strip(e.recv).kind == "path" \
                and (env.get(self.root_var(e.recv), ("",))[0] == "<struct>" or (self.strip(e.recv).segs == ["self"] and "self" not in env)):
            # `x.m(args);` / `self.m(args);` for a `&mut self` method translated earlier (its result = the fields after the call): the fields are rebound
            v = self.root_var(e.recv)
            term, argt, rt, partial, used, fields = self.cfg.defs["self." + e.name]
            for f in fields:
                if (v + "." + f[5:]) not in env: raise self.fail(e, f"`{e.name}` writes `{f}`, which is not modelled here")
            names = [env[v + "." + f[5:]][0] for f in fields]
            def render():
                for u in used:
                    if u not in self.used_calls: self.used_calls.append(u)
                self._env = env
                t_ = f"{term} " + " ".join([f"({n})" for n in names] + self.args_of(e, e.args, argt))
                return self.hoist(f"({t_})", "r") if partial else f"({t_})"
            new, bs = self.scoped(render)
            if bs and K.mode in ("total", "pure"): raise NeedMode("opt")
            pat = names[0] if len(names) == 1 else "'(" + ", ".join(names) + ")"
            return self.flush(bs, f"let {pat} := {new} in " + go(env), K)
        if e.kind == "mcall" and e.name == "for_each" and len(e.args) == 1 and getattr(self.cfg, "windows", None):
            r = self.for_each_window(e, env, K, go)
            if r is not None: return r
        if e.kind == "mcall" and e.name in self.MUTATORS:
            v = self.root_var(e.recv)
            if v is None or v not in env or self.strip(e.recv).kind not in ("path", "field"): raise self.fail(e, "mutation of something other than a local Vec")
            nm, t = env[v]
            if t[0] != "list": raise self.fail(e, f"`.{e.name}` on a non-Vec")
            def render():
                if e.name == "reverse" and not e.args: return f"rev ({nm})"
                if e.name == "swap":
                    # `v.swap(a, b)`: both positions must exist
                    if len(e.args) != 2: raise self.fail(e, "two arguments expected")
                    a, ta = self.expr(e.args[0], env); b, tb = self.expr(e.args[1], env)
                    if not (is_int(ta) and is_int(tb)): raise self.fail(e, "`.swap`: integer positions expected")
                    return self.hoist(f"rs_swap ({nm}) ({a}) ({b})", "l")
                if len(e.args) != 1: raise self.fail(e, "one argument expected")
                if e.name == "set_len":
                    # `unsafe { v.set_len(n) }`: the new cells hold whatever the allocation held: the abstract parameter uninit_
                    n, tn = self.expr(e.args[0], env)
                    if not is_int(tn) or t[1] != "f": raise self.fail(e, "`.set_len(n)` of a Vec<f64> with an integer n expected")
                    if "uninit_" not in self.used_calls: self.used_calls.append("uninit_")
                    note = "`Vec::with_capacity(n)` + `unsafe { v.set_len(n) }`: cell i of the uninitialised part is uninit_ i, an arbitrary function (the ties hold for every uninit_)"
                    if note not in self.notes: self.notes.append(note)
                    return f"rs_set_len ({nm}) ({n}) uninit_"
                if e.name == "push":
                    a, ta = self.expr(e.args[0], env)
                    if not self.same_type(ta, t[1]): raise self.fail(e, "pushed value of the wrong type")
                    return f"{nm} ++ [{a}]"
                a, ta = self.iter_of(e.args[0], env)
                if not self.same_type(ta, t[1]): raise self.fail(e, "extended by values of the wrong type")
                return f"{nm} ++ {a}"
            new, bs = self.scoped(render)
            if bs and K.mode in ("total", "pure"): raise NeedMode("opt")
            return self.flush(bs, f"let {nm} := {new} in " + go(env), K)
        raise self.fail(s, "expression statement without effect on the result is outside the subset")

    def for_each_window(self, e, env, K, go):
        """`x[i].iter_mut().for_each(|a| *a = E)` and `x[i].iter_mut().zip(Y).for_each(|(a, b)| *a = E)` on a translated window: the
           window is read, mapped (rs_map_opt when E can panic) resp. zipped (rs_zip_assign: stops at the shorter list, the remaining
           cells keep their value), and written back"""
        cl = self.strip(e.args[0]); r = self.strip(e.recv); ys = None
        if r.kind == "mcall" and r.name == "zip" and len(r.args) == 1: ys = r.args[0]; r = self.strip(r.recv)
        if not (r.kind == "mcall" and r.name == "iter_mut" and not r.args) or cl.kind != "closure" or cl.body.kind != "cassign": return None
        def render():
            w = self.window_of(r.recv, env)
            if w is None: raise self.fail(e, "`iter_mut().for_each(..)` on something that is not a translated window `x[i]`")
            pre, field, lo, read = w
            row = self.hoist(read, "w")
            envc = dict(env)
            tgt = cl.body.target
            if ys is None:
                if len(cl.params) != 1 or cl.params[0][0] != "var": raise self.fail(cl, "`|x| *x = e` expected")
                xs = [cl.params[0][1]]
            else:
                if len(cl.params) != 1 or cl.params[0][0] != "tup" or len(cl.params[0][1]) != 2 or any(q[0] != "var" for q in cl.params[0][1]): raise self.fail(cl, "`|(x, y)| *x = e` expected")
                xs = [q[1] for q in cl.params[0][1]]
            if not (tgt.kind == "ref" and self.src.text[tgt.pos] == "*" and tgt.e.kind == "path" and tgt.e.segs == [xs[0]]): raise self.fail(cl, "the closure must assign `*x` for its first parameter x")
            names = []
            for x in xs:
                nm = self.ident(x, envc, x); envc[x] = (nm, "f"); names.append(nm)
            self.nodraw = getattr(self, "nodraw", 0) + 1
            try: (v, t), bs = self.scoped(lambda: self.expr(cl.body.e, envc))
            finally: self.nodraw -= 1
            if t != "f": raise self.fail(cl, "an f64 value expected")
            if ys is None:
                new = self.hoist(f"rs_map_opt (fun {names[0]} => {self.bind_chain(bs, f'Some ({v})')}) ({row})", "l") if bs else f"map (fun {names[0]} => {v}) ({row})"
            else:
                if bs: raise self.fail(cl, "a closure under `zip(..).for_each` that can panic is outside the subset")
                y, ty = self.iter_of(ys, env)
                if ty != "f": raise self.fail(ys, "a slice of f64 expected")
                new = f"rs_zip_assign (fun {names[0]} {names[1]} => {v}) ({row}) ({y})"
            return pre + field, f"rs_put_slice ({env[pre + field][0]}) ({lo}) ({new})"
        (key, new), bs = self.scoped(render)
        if bs and K.mode in ("total", "pure"): raise NeedMode("opt")
        return self.flush(bs, f"let {env[key][0]} := {new} in " + go(env), K)

    def assign(self, s, env, K, go):
        tgt = self.strip(s.target)
        if tgt.kind == "index" and tgt.idx.kind not in ("range", "array") and self.strip(tgt.recv).kind == "index" and s.kind == "assign" and getattr(self.cfg, "windows", None):
            # `x[i][j] = e` through a translated window `IndexMut<usize>`: read the window, set position j, write the window back
            def render():
                rhs, tr = self.expr(s.e, env)
                w = self.window_of(tgt.recv, env)
                if w is None: raise self.fail(s.target, "assignment target outside the subset")
                pre, field, lo, read = w
                if tr != "f": raise self.fail(s, "assigned value of another type")
                j, tj = self.expr(tgt.idx, env)
                if not is_int(tj): raise self.fail(tgt.idx, "index must be an integer")
                row = self.hoist(read, "w")
                row2 = self.hoist(f"rs_set ({row}) ({j}) ({rhs})", "l")
                return pre + field, f"rs_put_slice ({env[pre + field][0]}) ({lo}) ({row2})"
            (key, new), bs = self.scoped(render)
            if bs and K.mode in ("total", "pure"): raise NeedMode("opt")
            return self.flush(bs, f"let {env[key][0]} := {new} in " + go(env), K)
        v = self.root_var(tgt)
        if v is None or v not in env: raise self.fail(s.target, "assignment to something that is not a mutable local")
        nm, t = env[v]
        def render():
            rhs, tr = self.expr(s.e, env)
            if tgt.kind in ("path", "field"):
                cur, tcur = nm, t
            elif tgt.kind == "index" and self.strip(tgt.recv).kind in ("path", "field") and t[0] == "list" and tgt.idx.kind != "range":
                i, ti = self.expr(tgt.idx, env)
                if not is_int(ti): raise self.fail(tgt.idx, "index must be an integer")
                tcur = t[1]
                cur = self.hoist(f"rs_get ({nm}) ({i})") if s.kind == "opassign" else None
            else:
                raise self.fail(s.target, "assignment target outside the subset")
            if s.kind == "opassign":
                if tcur == "f" and tr == "f":
                    val = {"+": "add", "-": "sub", "*": "mul", "/": "div"}[s.op] + f" O ({cur}) ({rhs})"
                elif is_int(tcur) and is_int(tr) and s.op in "+-*":
                    if s.op == "-" and int_join(tcur, tr) == "il":
                        raise self.fail(s, "subtraction of integers whose signedness is not known (an unsuffixed literal's type is inferred by rustc): annotate a type")
                    val = {"+": f"Z.add ({cur}) ({rhs})", "*": f"Z.mul ({cur}) ({rhs})",
                           "-": (f"Z.sub ({cur}) ({rhs})" if "si" in (tcur, tr) else f"rs_usub ({cur}) ({rhs})")}[s.op]
                else: raise self.fail(s, "compound assignment on these types is outside the subset")
            else:
                if not self.same_type(tcur, tr): raise self.fail(s, "assigned value of another type")
                val = rhs
            if tgt.kind == "index":
                return self.hoist(f"rs_set ({nm}) ({i}) ({val})", "l")
            return val
        new, bs = self.scoped(render)
        if bs and K.mode in ("total", "pure"): raise NeedMode("opt")
        return self.flush(bs, f"let {nm} := {new} in " + go(env), K)

    def escapes(self, node):
        """does `node` contain return / break / continue (break / continue of nested loops not counted)"""
        def ex(n, inloop):
            if isinstance(n, N):
                if n.kind == "return": return True
                if n.kind in ("break", "continue") and not inloop: return True
                if n.kind == "closure": return False
                il = inloop or n.kind in ("for", "while", "loop")
                return any(ex(v, il) for k, v in n.__dict__.items() if k not in ("kind", "pos", "end"))
            if isinstance(n, (list, tuple)): return any(ex(v, inloop) for v in n)
            return False
        return ex(node, False)

    def stmt_if(self, e, rest, tail, env, K, where):
        """a statement `if` (or block): merged when its branches only update variables, else the rest of the enclosing
           block continues inside every branch that does not leave"""
        s, bs = self.scoped(lambda: self.stmt_if_(e, rest, tail, env, K, where))
        if bs and K.mode in ("total", "pure"): raise NeedMode("opt")
        return self.flush(bs, s, K)

    def inline_branch(self, b, rest, tail, env, K, where):
        """the statements of branch b followed by the rest of the enclosing block"""
        for x in b.stmts:
            if x.kind == "let" and any(n in env for n in Parser.pattern_names(x.pattern)):
                raise self.fail(x, "a `let` that shadows a visible variable inside a statement branch is outside the subset")
        stmts = list(b.stmts) + ([N("semi", b.tail.pos, b.tail.end, e=b.tail)] if b.tail is not None else [])
        return self.seq(stmts + list(rest), tail, dict(env), K, where)

    def stmt_if_(self, e, rest, tail, env, K, where):
        go = lambda env2: self.seq(rest, tail, env2, K, where)
        if e.kind == "block":
            if e.tail is not None: raise self.fail(e, "block statement with a value")
            if not self.escapes(e): return self.block_stmt(e, env, K, go)
            return self.inline_branch(e, rest, tail, env, K, where)
        asg = self.assigned(N("block", e.pos, e.end, stmts=[N("semi", e.pos, e.end, e=e)], tail=None), set())
        M = [m for m in env if m in asg]
        if M and not self.escapes(e):
            def render(mode):
                C = Ctx(self, "merge", mode, M)
                return self.cond_tree(e, env, lambda b, envb: self.seq(b.stmts, b.tail, envb, C, b), lambda envb: C.fall(envb, None, e), C)
            mode, body = self.with_modes(["pure", "opt"], render)
            pat = env[M[0]][0] if len(M) == 1 else "'(" + ", ".join(env[m][0] for m in M) + ")"
            if mode == "pure": return f"let {pat} := {body} in " + go(env)
            if K.mode in ("total", "pure"): raise NeedMode("opt")
            return K.bind(pat, f"({body})", go(env))
        return self.cond_tree(e, env, lambda b, envb: self.inline_branch(b, rest, tail, envb, K, where), go, K)

    def block_stmt(self, b, env, K, go):
        M = [m for m in env if m in self.assigned(b, set())]
        def render(mode):
            C = Ctx(self, "merge", mode, M)
            return self.seq(b.stmts, None, dict(env), C, b)
        mode, body = self.with_modes(["pure", "opt"], render)
        pat = "_" if not M else (env[M[0]][0] if len(M) == 1 else "'(" + ", ".join(env[m][0] for m in M) + ")")
        if mode == "pure": return f"let {pat} := {body} in " + go(env)
        if K.mode in ("total", "pure"): raise NeedMode("opt")
        return K.bind(pat, f"({body})", go(env))

    def cond_tree(self, e, env, branch, empty, K):
        """if c then branch(th) else (branch(el) | nested if | empty); the panics of the first condition go to the enclosing
           scope, those of an `else if` condition stay inside that `else`"""
        def else_part():
            if e.el is None: return empty(dict(env))
            if e.el.kind in ("if", "iflet"):
                s2, bs2 = self.scoped(lambda: self.cond_tree(e.el, env, branch, empty, K))
                if bs2 and K.mode in ("total", "pure"): raise NeedMode("opt")
                return self.flush(bs2, s2, K)
            return branch(e.el, dict(env))
        if e.kind == "iflet":
            o, to = self.expr(e.e, env)
            if to[0] != "opt": raise self.fail(e, "`if let Some(x) = e`: e must be an Option")
            env2 = dict(env); nm = self.ident(e.name, env, e.name); env2[e.name] = (nm, to[1])
            a = branch(e.th, env2)
            return f"match {o} with Some {nm} => {a} | None => {else_part()} end"
        c, tc = self.expr(e.cond, env)
        if tc != "b": raise self.fail(e.cond, "condition is not a boolean")
        a = branch(e.th, dict(env))
        return f"if {c} then {a} else {else_part()}"

    def tail(self, e, env, K):
        k = e.kind
        if k == "paren": return self.tail(e.e, env, K)
        if k == "return":
            if e.e is None: return K.ret(env, None, e)
            return self.tail_value(e.e, env, K, ret=True)
        if k == "panic": return K.panic()
        if k == "break":
            if e.e is not None: raise self.fail(e, "`break` with a value is outside the subset")
            return K.brk(env, e)
        if k == "continue": return K.cont(env, e)
        if k == "block": return self.seq(e.stmts, e.tail, dict(env), K, e)
        if k == "match" and getattr(e, "arms", None) is not None and getattr(self.cfg, "enum_pair_match", False):
            return self.match_pair(e, env, K)
        if k in ("if", "iflet") and (K.kind != "fn" or self.has_stmts(e)):
            # branches with statements (or a unit-valued `if` ending a loop body): each branch ends the enclosing block
            (s, bs) = self.scoped(lambda: self.cond_tree(e, env, lambda b, envb: self.seq(b.stmts, b.tail, envb, K, b), lambda envb: K.fall(envb, None, e), K))
            if bs and K.mode in ("total", "pure"): raise NeedMode("opt")
            return self.flush(bs, s, K)
        return self.tail_value(e, env, K)

    def match_pair(self, e, env, K):
        """`match s { [p, q] => .., _ => .. }` ending a block, s a pair of values of one enum (the ONE form of `match` in the subset):
           a Gallina `match` on the pair with the same patterns in the same order (first match wins in both languages); each arm is
           rendered like the branch of an `if` that ends the block"""
        s_, ts = self.expr(e.scrut, env)
        if not (ts[0] == "tup" and len(ts[1]) == 2 and ts[1][0] == ts[1][1] and ts[1][0][0] == "enum"):
            raise self.fail(e, "`match` is only supported on a pair `[a, b]` of values of one enum")
        ename = ts[1][0][1]
        variants = dict(self.cfg.enums[ename])
        out = []
        for pat, body in e.arms:
            envb = dict(env)
            def one(p):
                if p is None: return "_"
                segs, var, payload = p
                if segs[-1] != ename or var not in variants or variants[var] is None: raise self.fail(e, f"pattern `{'::'.join(segs + [var])}` is not a variant of `{ename}`")
                tys = variants[var]
                if payload is None:
                    if tys: raise self.fail(e, f"variant `{var}` carries a value: bind it")
                    return f"rs_{ename}_{var}"
                if len(tys) != 1: raise self.fail(e, f"variant `{var}` does not carry exactly one value")
                t = self.ty_of_rust(tys[0], e)
                nm = self.ident(payload, envb, payload); envb[payload] = (nm, t)
                return f"rs_{ename}_{var} {nm}"
            ps = "_" if pat is None else f"({one(pat[0])}, {one(pat[1])})"
            b = self.seq(body.stmts, body.tail, envb, K, body) if body.kind == "block" else self.tail(body, envb, K)
            out.append(f"| {ps} => {b}")
        return f"match {s_} with " + " ".join(out) + " end"

    def enum_decl(self, name):
        """the Gallina inductive type of a fieldless-or-single-payload Rust enum of this file: `rs_<Enum>` with constructors `rs_<Enum>_<Variant>`"""
        vs = self.m.enums.get(name)
        if vs is None: raise Unsupported(f"{os.path.basename(self.src.path)}: enum `{name}` not found")
        if not hasattr(self, "generic_bounds"): self.generic_bounds = {}
        parts = []
        for v, tys in vs:
            if tys is None: raise Unsupported(f"enum `{name}`: variant `{v}` is outside the subset")
            parts.append(f"rs_{name}_{v}" + "".join(f" (_ : {self.cty_a(self.ty_of_rust(t))})" for t in tys))
        if not hasattr(self.cfg, "enums"): self.cfg.enums = {}
        self.cfg.enums[name] = vs
        return f"Inductive rs_{name} : Type := " + " | ".join(parts) + "."

    def window(self, owner, name):
        """read `fn name(&mut self, i: usize) -> &mut [f64] { assert!(c); &mut self.f[lo..hi] }` (IndexMut<usize>::index_mut) as a
           window of the field f: registers cfg.windows[owner] and returns a comment describing it"""
        fn = self.m.fn(owner, name)
        b = fn.body
        ok = (fn.has_self and len(fn.params) == 1 and len(b.stmts) == 1 and b.stmts[0].kind == "semi" and b.stmts[0].e.kind == "assert" and b.tail is not None)
        t = b.tail if ok else None
        while t is not None and t.kind in ("paren", "ref", "refmut"): t = t.e
        ok = ok and t is not None and t.kind == "index" and t.idx.kind == "range" and not t.idx.incl and t.idx.lo is not None and t.idx.hi is not None \
            and t.recv.kind == "field" and t.recv.recv.kind == "path" and t.recv.recv.segs == ["self"]
        if not ok: raise self.fail(fn, f"`{name}` is not of the form `assert!(c); &mut self.f[lo..hi]`")
        if not hasattr(self.cfg, "windows"): self.cfg.windows = {}
        self.cfg.windows[owner] = (name, fn.params[0][0], b.stmts[0].e.cond, t.recv.name, t.idx.lo, t.idx.hi)
        return f"(* `{owner}::{name}`: `x[{fn.params[0][0]}]` as a place is the window {self.src.text[t.pos:t.end]} of the field, guarded by {self.src.text[b.stmts[0].e.cond.pos:b.stmts[0].e.cond.end]} *)"

    def has_stmts(self, e):
        if e.kind in ("if", "iflet"):
            return self.has_stmts(e.th) or (e.el is not None and self.has_stmts(e.el))
        if e.kind == "block":
            return any(s.kind != "let" or s.mut for s in e.stmts) or (e.tail is not None and self.has_stmts(e.tail)) or e.tail is None
        return e.kind in ("return", "panic", "break", "continue")

    def tail_value(self, e, env, K, ret=False):
        return self.stmt_value(e, env, K, lambda vt: (K.ret(env, vt, e) if ret else K.fall(env, vt, e)))

    def loop_state(self, body, env, extra_local=()):
        asg = self.assigned(body, set(extra_local))
        return [m for m in env if m in asg]

    def render_loop(self, lst, pat_of, body, env, K, go, where, M):
        """fold over list term `lst`; pat_of(env_body) -> Gallina binder for the element (binds the loop variables)"""
        def render(mode):
            envb = dict(env)
            pat = pat_of(envb)
            C = Ctx(self, "loop", mode, M)
            return pat, self.seq(body.stmts, body.tail, envb, C, body)
        mode, (pat, b) = self.with_modes(["pure", "opt", "flow"], render)
        names = [env[m][0] for m in M]
        sv = "tt" if not M else (names[0] if len(M) == 1 else "(" + ", ".join(names) + ")")
        sp = "_" if not M else (names[0] if len(M) == 1 else "'(" + ", ".join(names) + ")")
        if mode == "pure":
            return f"let {sp} := fold_left (fun {sp} {pat} => {b}) ({lst}) {sv} in " + go(env)
        if mode == "opt":
            if K.mode in ("total", "pure"): raise NeedMode("opt")
            return K.bind(sp, f"rs_fold_opt (fun {sp} {pat} => {b}) ({lst}) {sv}", go(env))
        if K.mode in ("total", "pure"): raise NeedMode("opt")
        has_ret = "rs_return" in b
        mp = sv if M else "_"
        r = self.fresh("r")
        return (f"match rs_loop{'' if has_ret else ' (R := unit)'} (fun {sp} {pat} => {b}) ({lst}) {sv} with "
                f"| rs_next {mp} | rs_break {mp} => {go(env)} "
                f"| rs_return {r} => {K.ret(env, (r, self.ret_type), where) if has_ret else K.panic()} | rs_panic => {K.panic()} end")

    def for_loop(self, s, env, K, go):
        (lt, bs) = self.scoped(lambda: self.iter_of(s.iter, env))
        if bs and K.mode in ("total", "pure"): raise NeedMode("opt")
        lst, t = lt
        M = self.loop_state(s.body, env, s.pat)
        body = self.render_loop(lst, lambda envb: self.pattern(s.pattern, t, envb, s), s.body, env, K, go, s, M)
        return self.flush(bs, body, K)

    def while_loop(self, s, env, K, go):
        if not getattr(self.cfg, "fuel_while", False): return self.counted_while(s, env, K, go)
        g, nb, uc, rt = self.gensym, [list(b) for b in self.binds], list(self.used_calls), self.ret_type
        try: return self.counted_while(s, env, K, go)
        except Unsupported:
            self.gensym, self.binds, self.used_calls, self.ret_type = g, nb, uc, rt
            return self.fuel_while(s, env, K, go)

    def fuel_while(self, s, env, K, go):
        """R3 (targets that set cfg.fuel_while): a `while c { body }` whose condition depends on the data is
           rs_while fuel_ (fun state => if c then <body; Some (inl state')> else Some (inr state)) state: at most fuel_ passes,
           None for a panic AND for running out of fuel (fuel_ is a parameter of the generated function)"""
        if K.mode in ("total", "pure"): raise NeedMode("opt")
        M = self.loop_state(s.body, env)
        if not M: raise self.fail(s, "a `while` whose body assigns nothing")
        if "fuel_" not in self.used_calls: self.used_calls.append("fuel_")
        note = "R3: a data-driven `while c { .. }` is rs_while fuel_ ..: at most fuel_ passes, running out of fuel is None like a panic (fuel_ is a parameter of the generated function)"
        if note not in self.notes: self.notes.append(note)
        names = [env[m][0] for m in M]
        sv = names[0] if len(M) == 1 else "(" + ", ".join(names) + ")"
        sp = names[0] if len(M) == 1 else "'(" + ", ".join(names) + ")"
        C = Ctx(self, "while", "opt", M)
        def render():
            c, tc = self.expr(s.cond, env)
            if tc != "b": raise self.fail(s.cond, "condition is not a boolean")
            body = self.seq(s.body.stmts, s.body.tail, dict(env), C, s.body)
            return f"if {c} then {body} else Some (inr {sv})"
        step, bs = self.scoped(render)
        step = self.flush(bs, step, C)
        return K.bind(sp, f"rs_while fuel_ (fun {sp} => {step}) {sv}", go(env))

    def counted_while(self, s, env, K, go):
        """R2: `while i < b { ..; i += 1; }` with an integer counter i that the body only changes by its last statement and a
           bound b the body does not change is the loop `for i in i..b { ..; i += 1 }` (i stays part of the state)"""
        bad = "`while` is only supported with an explicit integer counter: `while i < bound { ..; i += 1; }`"
        c = self.strip(s.cond)
        if c.kind != "bin" or c.op not in ("<", "<="): raise self.fail(s, bad)
        iv = self.strip(c.a)
        if iv.kind != "path" or len(iv.segs) != 1 or iv.segs[0] not in env or not is_int(env[iv.segs[0]][1]): raise self.fail(s, bad)
        i = iv.segs[0]
        st = s.body.stmts
        last = st[-1] if st and s.body.tail is None else None
        ok = (last is not None and last.kind == "opassign" and last.op == "+" and self.root_var(last.target) == i
              and self.strip(last.target).kind == "path" and self.strip(last.e).kind == "lit" and self.strip(last.e).text == "1")
        if not ok: raise self.fail(s, bad)
        inner = N("block", s.body.pos, s.body.end, stmts=st[:-1], tail=None)
        if i in self.assigned(inner, set()): raise self.fail(s, bad + " (the counter is assigned elsewhere in the body)")
        asg = set(self.assigned(s.body, set()))
        def mentions(n):
            if isinstance(n, N):
                if n.kind == "path" and len(n.segs) == 1 and n.segs[0] in asg: return True
                return any(mentions(v) for k, v in n.__dict__.items() if k not in ("kind", "pos", "end"))
            if isinstance(n, (list, tuple)): return any(mentions(v) for v in n)
            return False
        if mentions(c.b): raise self.fail(s, bad + " (the bound changes in the body)")
        def has_continue(n, inloop=False):
            if isinstance(n, N):
                if n.kind == "continue" and not inloop: return True
                il = inloop or n.kind in ("for", "while", "loop")
                return any(has_continue(v, il) for k, v in n.__dict__.items() if k not in ("kind", "pos", "end"))
            if isinstance(n, (list, tuple)): return any(has_continue(v, inloop) for v in n)
            return False
        if has_continue(s.body): raise self.fail(s, bad + " (`continue` would skip the increment)")
        note = "R2: `while i < b { ..; i += 1; }` rendered as the fold over the range i..b with i kept in the state"
        if note not in self.notes: self.notes.append(note)
        (bt, bs) = self.scoped(lambda: self.expr(c.b, env))
        if bs and K.mode in ("total", "pure"): raise NeedMode("opt")
        b, tb = bt
        if not is_int(tb): raise self.fail(s, bad)
        inm = env[i][0]
        lst = f"rs_range_excl ({inm}) ({b})" if c.op == "<" else f"rs_range ({inm}) ({b})"
        M = self.loop_state(s.body, env)
        body = self.render_loop(lst, lambda envb: inm, s.body, env, K, go, s, M)
        return self.flush(bs, body, K)

    # ---- functions
    def function(self, owner, name, coq_name, mode="plain", macro=None, self_fields=None, result="value"):
        """translate `fn name`; result: 'value' (the returned value) | 'fields' (the struct's modelled fields after the call,
           for `&mut self` methods).  The definition is registered in cfg.defs under its Rust name (`self.name` for methods)."""
        self.owner, self.mode, self.used_calls, self.ret_type = owner, mode, [], None
        self.accept, self.extra_binders = None, []
        self.binds, self.gensym = [[]], 0
        self.result_mode = result
        fn = self.m.fn(owner, name, macro)
        lo, hi = (self.m.macro_fns if macro else self.m.fns)[(macro, owner, name) if macro else (owner, name)]
        self.idents = {t.text for t in self.src.toks[lo:hi] if t.kind == "id"}
        self.generic_bounds = {}
        for g, args, ret in re.findall(r"(\w+):Fn(?:Mut|Once)?\(([^)]*)\)->(\w+)", fn.where + "," + ",".join(fn.generics)):
            rt_ = self.ty_of_rust(ret, fn)
            if getattr(self.cfg, "partial_fn_params", False): rt_ = ("opt", rt_)      # a closure argument may panic: T -> option T
            self.generic_bounds[g] = ("fn", tuple(self.ty_of_rust(a, fn) for a in args.split(",") if a), rt_)
        env, binders = {}, []
        fields = []
        newtype = getattr(self.cfg, "newtype_self", {}).get(owner) if fn.has_self else None
        if newtype is not None:
            # a method of a newtype struct (`struct Vector { v: Vec<f64> }`, transparent through Deref): `self` is the wrapped value
            nm = self.ident("self_"); env["self"] = (nm, newtype); binders.append((nm, newtype)); fields.append("self")
            for f, _ in (self.m.structs.get(owner) or [])[:1]: env["self." + f] = (nm, newtype)      # the one field of the newtype is the value itself
        elif fn.has_self:
            st = self.m.structs.get(owner)
            if st is None: st = getattr(self.cfg, "owner_structs", {}).get(owner)      # the struct of another file (a macro's `$selftype`), given by the target
            if st is None: raise self.fail(fn, f"struct `{owner}` not found in this file")
            for f, ty in st:
                if self_fields is not None and f not in self_fields: continue
                try: t = self.ty_of_rust(ty)
                except Unsupported:
                    if self_fields is not None: raise
                    continue
                nm = self.ident(f); env["self." + f] = (nm, t); binders.append((nm, t)); fields.append("self." + f)
        prefix = ""
        outparams = []
        for p, ty, tok in fn.params:
            t = self.ty_of_rust(ty, tok); nm = self.ident(p, env, p)
            env[p] = (nm, t); binders.append((nm, t))
            if result == "outparams" and re.sub(r"\s+", "", ty).startswith("&mut"): outparams.append(p)
            if t[0] == "struct": prefix += f"let {self.bind_struct(p, t, env)} := {nm} in "
        self.used_draws = []
        threaded = self.has_draw(fn.body)
        if threaded:
            env["<rng>"] = ("rng_", "St"); binders.append(("rng_", "St"))
        def result_of(envr, val, where):
            if threaded:
                if result == "fields" or val is None: raise self.fail(where, "a function that draws random numbers must return a value")
                self.ret_seen(("tup", (val[1], "St")), where)
                return f"({val[0]}, {envr['<rng>'][0]})"
            return result_of0(envr, val, where)
        def result_of0(envr, val, where):
            if result == "outparams":
                # a function that works through its `&mut [f64]` parameters and returns nothing: the value of those parameters after the call
                if val is not None and val[1] != "unit": raise self.fail(where, "result='outparams': the function must not return a value")
                if not outparams: raise self.fail(where, "result='outparams': no `&mut` parameter")
                s = "(" + ", ".join(envr[q][0] for q in outparams) + ")" if len(outparams) != 1 else envr[outparams[0]][0]
                self.ret_type = ("tup", tuple(envr[q][1] for q in outparams)) if len(outparams) != 1 else envr[outparams[0]][1]
                return s
            if result == "fields":
                s = "(" + ", ".join(envr[f][0] for f in fields) + ")" if len(fields) != 1 else envr[fields[0]][0]
                self.ret_type = ("tup", tuple(envr[f][1] for f in fields)) if len(fields) != 1 else envr[fields[0]][1]
            else:
                if val is None: raise self.fail(where, "the function can end without a value")
                s = val[0]; self.ret_seen(val[1], where)
            return s
        def render(m):
            K = Ctx(self, "fn", m, result=lambda envr, val, where: (f"Some ({result_of(envr, val, where)})" if m == "opt" else result_of(envr, val, where)))
            return self.seq(fn.body.stmts, fn.body.tail, env, K, fn.body)
        m, body = self.with_modes(["total", "opt"], render)
        body = prefix + body
        self.partial = (m == "opt")
        if fn.ret is not None and result == "value":
            rt = fn.ret.replace(" ", "")
            try: want = self.ty_of_rust(rt, fn)
            except Unsupported: want = None
            if want is not None and threaded: want = ("tup", (want, "St"))      # the generator state comes back with the value
            if want is not None and not self.same_type(want, self.ret_type): raise self.fail(fn, "declared result type differs from the inferred one")
        callb = []
        for cq, argt, rt in list(self.cfg.calls.values()):
            if cq in self.used_calls and cq not in [c for c, _ in callb]:
                callb.append((cq, " -> ".join(self.cty_a(a) for a in list(argt) + [("opt", rt[1]) if rt[0] == "optval" else rt])))
        if threaded:
            callb = [("{St_", "Type}")] + callb
            for cq, rtype, argt, rt in self.cfg.draw_methods.values():
                if cq in self.used_draws:
                    callb.append((cq, " -> ".join([self.cty_a(rtype)] + [self.cty_a(a) for a in argt] + ["St_", f"option ({self.cty_a(rt)} * St_)"])))
        pre = "{T : Type} (O : Ops T)" + "".join((f" {c} : {ty}" if c.startswith("{") else f" ({c} : {ty})") for c, ty in callb)
        if threaded: callb = [c for c in callb if not c[0].startswith("{")]
        sig = pre + "".join(f" ({b} : {self.cty(t)})" for b, t in binders)
        rty = self.cty(self.ret_type)
        text = f"Definition {coq_name} {sig} : {f'option {self.cty_a(self.ret_type)}' if self.partial else rty} :=\n  {body}."
        key = ("self." + name) if fn.has_self else name
        if fn.has_self and result == "fields":
            if not hasattr(self.cfg, "mut_methods"): self.cfg.mut_methods = set()
            self.cfg.mut_methods.add(name)
        argt = [t for _, t in binders]
        if result != "outparams":      # (an 'outparams' function is not registered: a call of it from translated code stays refused)
            self.cfg.defs[key] = (coq_name + " O" + "".join(f" {c}" for c, _ in callb), argt[len(fields):] if fn.has_self else argt, self.ret_type, self.partial, [c for c, _ in callb], list(fields))
        self.last_fields = fields
        return Translated(coq_name, text, sig, mode, list(self.used_calls), list(self.notes))


    def fragment(self, owner, name, coq_name, anchor, count, inputs, result_var, macro=None):
        """translate `count` consecutive statements of `fn name`, starting at the first statement (searched through nested
           blocks and loop bodies, in source order) whose text starts with `anchor` (white space normalised); the free variables
           are `inputs` = [(Rust name, type)], the result is the final value of the local `result_var`.  Anything the
           fragment reads that is not an input stops the translator (unknown name)."""
        self.owner, self.mode, self.used_calls, self.ret_type = owner, "plain", [], None
        self.accept, self.extra_binders = None, []
        self.binds, self.gensym = [[]], 0
        self.result_mode = "value"
        self.generic_bounds = {}
        fn = self.m.fn(owner, name, macro)
        lo, hi = (self.m.macro_fns if macro else self.m.fns)[(macro, owner, name) if macro else (owner, name)]
        self.idents = {t.text for t in self.src.toks[lo:hi] if t.kind == "id"}
        norm = lambda n: " ".join(self.src.text[n.pos:n.end].split())
        want = " ".join(anchor.split())
        def find(b):
            for i, st in enumerate(b.stmts):
                if norm(st).startswith(want): return b.stmts, i
                for sub in self.sub_blocks(st):
                    r = find(sub)
                    if r is not None: return r
            return None
        hit = find(fn.body)
        if hit is None: raise self.fail(fn, f"`{name}`: no statement starting with `{want}`")
        stmts, i = hit
        if i + count > len(stmts): raise self.fail(stmts[i], f"`{name}`: fewer than {count} statements from `{want}` on")
        env, binders = {}, []
        for p, t in inputs:
            nm = self.ident(p, env, p); env[p] = (nm, t); binders.append((nm, t))
        last = stmts[i + count - 1]
        def result_of(envr, val, where):
            if result_var not in envr: raise self.fail(last, f"`{result_var}` is not a local of the fragment")
            self.ret_seen(envr[result_var][1], where)
            return envr[result_var][0]
        def render(m):
            K = Ctx(self, "fn", m, result=lambda envr, val, where: (f"Some ({result_of(envr, val, where)})" if m == "opt" else result_of(envr, val, where)))
            return self.seq(list(stmts[i:i + count]), None, env, K, last)
        m, body = self.with_modes(["total", "opt"], render)
        self.partial = (m == "opt")
        callb = []
        for cq, argt, rt in list(self.cfg.calls.values()):
            if cq in self.used_calls and cq not in [c for c, _ in callb]:
                callb.append((cq, " -> ".join(self.cty_a(a) for a in list(argt) + [rt])))
        pre = "{T : Type} (O : Ops T)" + "".join(f" ({c} : {ty})" for c, ty in callb)
        sig = pre + "".join(f" ({b} : {self.cty(t)})" for b, t in binders)
        rty = f"option {self.cty_a(self.ret_type)}" if self.partial else self.cty(self.ret_type)
        src_txt = " ".join(norm(st) for st in stmts[i:i + count])
        text = f"(* fragment of `{name}`: {src_txt.replace('*)', '* )')} *)\nDefinition {coq_name} {sig} : {rty} :=\n  {body}."
        return Translated(coq_name, text, sig, "plain", list(self.used_calls), list(self.notes))

    @staticmethod
    def sub_blocks(st):
        """the blocks nested in a statement, in source order"""
        out = []
        def ex(e):
            if e is None: return
            if e.kind == "block": out.append(e)
            elif e.kind in ("if", "iflet"):
                out.append(e.th); ex(e.el)
            elif e.kind in ("paren", "ref"): ex(e.e)
        if st.kind in ("for", "while"): out.append(st.body)
        elif st.kind == "semi": ex(st.e)
        elif st.kind == "let": ex(st.e)
        return out


LOOPS_PRELUDE = """From Coq Require Import ZArith QArith Floats List Bool.
From Compute Require Import Base.Ops Base.ListMat Base.RsExpr.
Import ListNotations.
Local Close Scope Q_scope.
Local Open Scope list_scope.
"""


def loops_header(tool, sources, mut=False):
    """mut: the target uses the combinators of Base/RsExprMut.v (swap, set_len, EPSILON, data-driven while)"""
    prelude = LOOPS_PRELUDE.replace("Base.RsExpr.", "Base.RsExpr Base.RsExprMut.") if mut else LOOPS_PRELUDE
    return (f"(* GENERATED by {tool} (statement-level translator, LoopTranslator of tools/rsexpr.py) from {', '.join(sources)}. Do not edit.\n"
            "   Each definition is the body of the Rust function of the same name, statement for statement: slices are lists, indices\n"
            "   and lengths are in Z, a panic (assert!, out-of-bounds index, zero divisor) is None, loops are folds over lists. *)\n" + prelude)


PRELUDE = """From Coq Require Import ZArith QArith Floats List Bool.
From Compute Require Import Base.Ops Base.RsExpr.
Import ListNotations.
"""


def header(tool, sources):
    return (f"(* GENERATED by {tool} (expression translator tools/rsexpr.py) from {', '.join(sources)}. Do not edit.\n"
            "   Each definition is the body of the Rust function of the same name, operation for operation. *)\n" + PRELUDE)


# ----------------------------------------------------------------------------------------------- self-test
_POS = [   # (Rust, expected Gallina body): precedence, associativity, literal rule, comparisons, casts, early return
    ("fn f(x: f64, y: f64) -> f64 { -x.powi(2) / (2. * y) }", "div O (neg O (powi O (x) (2%Z))) (mul O (two O) (y))"),
    ("fn f(a: f64, b: f64, c: f64) -> f64 { a - b - c }", "sub O (sub O (a) (b)) (c)"),
    ("fn f(a: f64, b: f64, c: f64) -> f64 { a / b * c }", "mul O (div O (a) (b)) (c)"),
    ("fn f(a: f64, b: f64, c: f64) -> f64 { a + b * c }", "add O (a) (mul O (b) (c))"),
    ("fn f(a: f64, b: f64) -> f64 { -a * b }", "mul O (neg O (a)) (b)"),
    ("fn f(a: f64, b: f64) -> f64 { -0.5 * (a - b) }", "mul O (neg O (ofQ O (1 # 2))) (sub O (a) (b))"),
    ("fn f(n: u64) -> f64 { n as f64 / 2. }", "div O (ofZ O (n)) (two O)"),
    ("fn f(n: u64, k: u64) -> f64 { (n - k + 1) as f64 }", "ofZ O (Z.add (Z.sub (n) (k)) (1%Z))"),
    ("fn f(x: f64) -> f64 { 12. * x + 1e-3 + 0. + 1.0 + 2_f64 }", "add O (add O (add O (add O (mul O (ofZ O 12) (x)) (ofQ O (1 # 1000))) (zero O)) (one O)) (two O)"),
    ("fn f(x: f64, y: f64) -> f64 { if x > y { return 0.; } x }", "if ltb O (y) (x) then zero O else x"),
    ("fn f(x: f64, y: f64) -> f64 { if x >= y || !(x == y) && x != y { x } else { y } }",
     "if orb (leb O (y) (x)) (andb (negb (eqb O (x) (y))) (negb (eqb O (x) (y)))) then x else y"),
    ("fn f(x: f64) -> f64 { assert!(x > 0., \"msg {}\", x); x.ln() }", "if ltb O (zero O) (x) then Some (f1 O Ln (x)) else None"),
    ("fn f(x: f64) -> f64 { 2_f64.powf(x) + x.powf(2.) }", "add O (f1 O Exp2 (x)) (f2 O Pow (x) (two O))"),
    ("fn f(x: f64, y: f64) -> f64 { x.max(y).min(1.) }", "fmin O (fmax O (x) (y)) (one O)"),
    ("fn f(x: f64, y: f64) -> f64 { f64::min(x.abs(), y) }", "fmin O (abs O (x)) (y)"),
    ("fn f(k: u64) -> f64 { (1..=k).map(|i| (i as f64).ln()).sum() }",
     "rs_iter_sum O (map (fun i : Z => f1 O Ln (ofZ O (i))) (rs_range (1%Z) (k)))"),
]
_POS_SELF = [   # a local never captures the binder of a field it shadows by name
    ("struct S { alpha: f64 } impl S { fn g(&self, x: f64) -> f64 { let alpha = x + 1.; alpha * self.alpha } }",
     "let alpha' := add O (x) (one O) in mul O (alpha') (alpha)"),
    ("struct S { x: f64 } impl S { fn g(&self, x: f64) -> f64 { x * self.x } }", "mul O (x') (x)"),
]
_NEG = [   # (Rust, fragment the error must mention): everything outside the subset stops the translator, with its span
    ("fn f(x: f64) -> f64 { let mut y = x; y += 1.; y }", "mutable state"),
    ("fn f(x: f64) -> f64 { let y = x; y = 2.; y }", "assignment"),
    ("fn f(x: f64) -> f64 { x.tanh2() }", "method `.tanh2`"),
    ("fn f(x: &[f64]) -> f64 { x[0] }", "outside the subset"),
    ("fn f(x: f64) -> f64 { while x > 0. { } x }", "`while`"),
    ("fn f(x: f64) -> f64 { foo(x) }", "call of `foo`"),
    ("fn f(x: f64, n: u64) -> f64 { x + n }", "different or non-numeric types"),
    ("fn f(x: f64) -> f64 { x % 2. }", "operator `%`"),
    ("fn f(x: f64) -> f64 { match x { _ => 1. } }", "`match`"),
    ("fn f(x: f64) -> f64 { f64::NAN }", "infinity / NaN"),
    ("fn f(x: f64) -> u64 { x as u64 }", "float-to-integer cast"),
    ("fn f(x: f64) -> f64 { if x > 0. { let y = x; } x }", "must leave the function"),
    ("fn f(x: f64) -> f64 { unsafe { x } }", "`unsafe`"),
    ("fn f(x: f64) -> f64 { (0..3).map(|i| x).sum() }", "half-open range"),
    ("fn f(x: f64) -> f64 { alea::f64() * x }", "call of `alea::f64`"),
    ("fn f(x: f64) -> f64 { 1 + x }", "different or non-numeric types"),
    ("fn f(x: f64) -> f64 { x.powi(2.) }", "powi exponent"),
]

_LPOS = [   # statement-level translator (LoopTranslator): (Rust, expected Gallina body)
    ('fn f(x: &[f64]) -> f64 { let mut s = 0.; for v in x.iter() { s += v; } s }',
     'let s := zero O in let s := fold_left (fun s v => let s := add O (s) (v) in s) (x) s in s'),
    ('fn f(x: &[f64]) -> f64 { let mut s = 0.; for i in 0..x.len() { s += x[i]; } s }',
     'let s := zero O in let* s := rs_fold_opt (fun s i => let* g1 := rs_get (x) (i) in let s := add O (s) (g1) in Some s) (rs_range_excl (0%Z) (rs_len (x))) s in Some (s)'),
    ('fn f(x: &[f64]) -> f64 { x.iter().map(|v| v * 2.).sum::<f64>() }',
     'rs_iter_sum O (map (fun v => mul O (v) (two O)) (x))'),
    ('fn f(x: &[f64]) -> f64 { x.iter().fold(0., |a, v| a + v) }',
     'fold_left (fun a v => add O (a) (v)) (x) (zero O)'),
    ('fn f(x: &[f64], t: f64) -> usize { let mut k = 0; for v in x.iter() { if *v > t { break; } k += 1; } k }',
     'let k := 0%Z in match rs_loop (R := unit) (fun k v => if ltb O (t) (v) then rs_break k else let k := Z.add (k) (1%Z) in rs_next k) (x) k with | rs_next k | rs_break k => Some (k) | rs_return r1 => None | rs_panic => None end'),
    ('fn f(x: &[f64]) -> f64 { for v in x.iter() { if *v > 0. { return *v; } } 0. }',
     'match rs_loop (fun _ v => if ltb O (zero O) (v) then rs_return (v) else rs_next tt) (x) tt with | rs_next _ | rs_break _ => Some (zero O) | rs_return r1 => Some (r1) | rs_panic => None end'),
    ('fn f(n: usize) -> usize { let mut i = 0; let mut s = 0; while i < n { s += i; i += 1; } s }',
     "let i := 0%Z in let s := 0%Z in let '(i, s) := fold_left (fun '(i, s) i => let s := Z.add (s) (i) in let i := Z.add (i) (1%Z) in (i, s)) (rs_range_excl (i) (n)) (i, s) in s"),
    ('fn f(x: &[f64]) -> Vec<f64> { let mut v = Vec::with_capacity(x.len()); for a in x.iter() { v.push(a * a); } v }',
     'let v := [] in let v := fold_left (fun v a => let v := v ++ [mul O (a) (a)] in v) (x) v in v'),
    ('fn f(n: usize) -> Vec<f64> { let mut v = vec![0.; n]; for i in 0..n { v[i] = i as f64; } v }',
     'let* l1 := rs_vec_alloc (zero O) (n) in let v := l1 in let* v := rs_fold_opt (fun v i => let* l2 := rs_set (v) (i) (ofZ O (i)) in let v := l2 in Some v) (rs_range_excl (0%Z) (n)) v in Some (v)'),
    ('fn f(n: usize) -> f64 { (n - 1) as f64 }',
     'ofZ O (rs_usub (n) (1%Z))'),
    ('fn f(x: &[f64], y: &[f64]) -> f64 { let mut s = 0.; let mut c = 0.; for (i, (a, b)) in x.iter().zip(y.iter()).enumerate() { s += a * b; c = i as f64; } s / c }',
     "let s := zero O in let c := zero O in let '(s, c) := fold_left (fun '(s, c) '(i, (a, b)) => let s := add O (s) (mul O (a) (b)) in let c := ofZ O (i) in (s, c)) (rs_enumerate (combine (x) (y))) (s, c) in div O (s) (c)"),
    ('fn f(x: &[f64]) -> f64 { let mut m = x[0]; for v in x.iter() { if *v > m { m = *v; } } m }',
     'let* g1 := rs_get (x) (0%Z) in let m := g1 in let m := fold_left (fun m v => if ltb O (m) (v) then let m := v in m else m) (x) m in Some (m)'),
    ('fn f(x: &[f64], k: usize) -> f64 { assert!(k <= x.len()); x[k..].iter().product() }',
     'if Z.leb (k) (rs_len (x)) then let* sl1 := rs_slice_from (x) (k) in Some (rs_iter_product O (sl1)) else None'),
    ('fn f(a: usize, b: usize) -> usize { a / b + a % 8 }',
     'let* g1 := rs_idiv (a) (b) in Some (Z.add (g1) (Z.rem (a) (8%Z)))'),
    ('fn f<F>(g: F, n: usize) -> f64 where F: Fn(f64) -> f64 { (1..=n).map(|k| g(k as f64)).sum() }',
     'rs_iter_sum O (map (fun k => g (ofZ O (k))) (rs_range (1%Z) (n)))'),
    ('fn f(t: (usize, f64)) -> f64 { let (mut c, m) = t; c += 1; m / c as f64 }',
     "let '(c, m) := t in let c := Z.add (c) (1%Z) in div O (m) (ofZ O (c))"),
]
_LPOS += [  # in-place mutation, Option / Result values, std helpers (added for the linear-algebra and Matrix targets)
    ('fn f(n: usize) -> Vec<f64> { let mut x = Vec::with_capacity(n); unsafe { x.set_len(n); } for i in 0..n { x[i] = 1.; } x }',
     'let x := [] in let x := rs_set_len (x) (n) uninit_ in let* x := rs_fold_opt (fun x i => let* l1 := rs_set (x) (i) (one O) in let x := l1 in Some x) (rs_range_excl (0%Z) (n)) x in Some (x)'),
    ('fn f(v: &[f64]) -> Vec<f64> { let mut w = v.to_vec(); w.swap(0, 1); w }',
     'let w := v in let* l1 := rs_swap (w) (0%Z) (1%Z) in let w := l1 in Some (w)'),
    ('fn f(x: f64) -> Option<f64> { if x < 0. { return None; } Some(x.sqrt()) }',
     'if ltb O (x) (zero O) then None else Some (sqrt O (x))'),
    ('fn f(x: Option<f64>) -> f64 { x.expect("no value") + 1. }',
     'let* u1 := x in Some (add O (u1) (one O))'),
    ('fn f(a: usize, b: usize) -> usize { cmp::min(a, b) }', 'Z.min (a) (b)'),
    ('fn f(x: f64) -> bool { if x > f64::EPSILON { return false; } true }',
     'if ltb O (rs_f64_epsilon O) (x) then false else true'),
    ('fn f(a: usize, b: usize) -> usize { let mut x = a; let mut y = b; swap(&mut x, &mut y); x }',
     "let x := a in let y := b in let '(x, y) := (y, x) in x"),
    ('fn f(v: &[f64], n: usize) -> Vec<f64> { v.repeat(n) }', 'rs_repeat (v) (n)'),
]
_LPOS_CFG = [   # renderings a target has to opt into: (Rust, expected Gallina body, Config attributes)
    ('fn f(p: &[i32], i: usize) -> usize { let mut k = 0; let mut j = i; while p[j] != j as i32 { j = p[j] as usize; k += 1; } k }',
     "let k := 0%Z in let j := i in let* (k, j) := rs_while fuel_ (fun '(k, j) => let* g1 := rs_get (p) (j) in if negb (Z.eqb (g1) (j)) then let* g2 := rs_get (p) (j) in let j := g2 in let k := Z.add (k) (1%Z) in Some (inl (k, j)) else Some (inr (k, j))) (k, j) in Some (k)",
     {"fuel_while": True}),
    ('fn f(x: f64) -> usize { x.ceil() as usize }', 'Z.max (0%Z) (truncZ O (f1 O Ceil (x)))', {"float_to_usize": True}),
    ('fn f(m: Mat) -> usize { let mut t = m; t.r = t.r + m.c; t.r }',
     "let '(m_r, m_c) := m in let '(t_r, t_c) := (m_r, m_c) in let t_r := Z.add (t_r) (m_c) in t_r",
     {"struct_fields": {"Mat": [("r", "i"), ("c", "i")]}, "param_types": {"Mat": ("struct", "Mat")}}),
]
_LNEG = [   # (Rust, fragment the refusal must mention)
    ('fn f(n: usize) -> Vec<f64> { let mut x = Vec::with_capacity(n); unsafe { x.set_len(n); x.push(1.); } x }', '`unsafe`'),
    ('fn f(x: &[f64]) -> f64 { let y = &mut x; 0. }', '`&mut`'),
    ('fn f(x: f64) -> usize { x as usize }', 'float-to-integer cast'),
    ('fn f(x: f64) -> f64 { let s = "a"; x }', 'string outside a macro'),
    ('fn f(x: &[f64]) -> f64 { let mut s = 0.; let mut i = 0; while x[i] > 0. { s += x[i]; i += 1; } s }', 'explicit integer counter'),
    ('fn f(x: Option<f64>) -> f64 { None.unwrap() }', 'bare `None`'),
    ('fn f(x: &[f64]) -> f64 { let mut k = 5; k -= 1; x[k] }', 'signedness is not known'),
    ('fn f(x: &[f64]) -> f64 { let mut s = 0.; for v in x.iter() { s += v; let s = 1.; } s }', 'shadows `s`'),
    ('fn f(x: &[f64]) -> f64 { let mut s = 0.; let mut i = 0; while s < 1. { s += x[i]; i += 1; } s }', 'explicit integer counter'),
    ('fn f(x: &[f64]) -> f64 { match x.len() { _ => 0. } }', '`match`'),
    ('fn f(m: &Matrix) -> f64 { m[[0, 0]] }', 'type `Matrix`'),
    ('fn f(x: &[f64]) -> f64 { x.iter().filter(|v| **v > 0.).sum() }', '`.filter`'),
    ('fn f(x: &[f64]) -> f64 { let mut s = 0.; x.iter().for_each(|v| s += v); s }', 'expected'),
    ('fn f(x: &[f64]) -> f64 { let y = &x[1..=2]; y[0] }', 'inclusive slice range'),
    ('fn f(x: &[f64]) -> f64 { loop { } }', 'loop'),
    ('fn f(x: &[f64]) -> f64 { let mut i = 0; let mut s = 0.; while i < x.len() { if x[i] < 0. { continue; } s += x[i]; i += 1; } s }', '`continue`'),
    ('fn f(x: &[f64]) -> f64 { let mut i = 0; let mut s = 0.; while i < x.len() { i += 2; s += x[i]; i += 1; } s }', 'assigned elsewhere'),
    ('fn f(x: &[f64]) -> f64 { y[0] }', 'unknown name'),
    ('fn f(x: &[f64]) -> f64 { for v in x.iter() { } }', 'can end without a value'),
    ('fn f(x: &[f64]) -> f64 { x[0.5] }', 'index must be an integer'),
    ('fn f(x: &[f64]) -> f64 { let mut s = 0.; for v in x.iter() { s += v; break 1.; } s }', '`break` with a value'),
    ('fn f(x: &[f64]) -> f64 { unsafe { *x.get_unchecked(0) } }', '`unsafe`'),
]

_DU = ("tup", ("si", "si"))
_MAT2 = ("struct", "Mat")
_MACRO = 'macro_rules! m { ($op: ident, $inner: ident) => { fn $op(&self, o: Mat) -> Mat { self.$inner(o) } } }'
_MACRO_CFG = {"struct_fields": {"Mat": [("r", "i"), ("d", ("list", "f"))]}, "param_types": {"Mat": _MAT2, "Self": _MAT2}, "owner_structs": {None: [("r", "usize"), ("d", "Vec<f64>")]}}
_UPD = 'struct P { c: Vec<f64> } impl P { fn upd(&mut self, p: &[f64]) -> &mut Self { self.c = p.to_owned(); self } '
_L3 = [   # third round: (Rust, expected Gallina body | None, fragment of the refusal | None, Config attributes, how to call `function`)
    ('fn f(x: &[f64]) -> i64 { (x.len() - 1) as i64 }', 'rs_as_i64 (rs_usub (rs_len (x)) (1%Z))', None, {"wrap_i64_cast": True}, {}),
    ('fn f(x: &[f64], i: usize) -> Vec<f64> { let (a, b) = x.split_at(i); let (_, r) = b.split_first().unwrap(); let mut v = a.to_vec(); v.extend_from_slice(r); v }',
     "let* p1 := rs_split_at (x) (i) in let '(a, b) := p1 in let* u2 := rs_split_first (b) in let '(_, r) := u2 in let v := a in let v := v ++ r in Some (v)", None, {}, {}),
    ('fn f(x: &[f64]) -> Vec<Vec<f64>> { let mut r: Vec<Vec<f64>> = Vec::with_capacity(2); r.push(x.to_vec()); r }', 'let r := [] in let r := r ++ [x] in r', None, {}, {}),
    ('fn f(d: D, n: usize) -> f64 { let mut s = 0.; for _ in 0..n { s += d.sample(); } s }',
     "let s := zero O in let* (rng_, s) := rs_fold_opt (fun '(rng_, s) _ => let* (d1, rng_) := sample_ (d) rng_ in let s := add O (s) (d1) in Some (rng_, s)) (rs_range_excl (0%Z) (n)) (rng_, s) in Some ((s, rng_))",
     None, {"draw_methods": {"sample": ("sample_", _DU, [], "f")}, "param_types": {"D": _DU}}, {}),
    ('fn f(d: D, x: &[f64]) -> Vec<f64> { x.iter().map(|v| v + d.sample()).collect() }', None, 'a random draw inside a closure',
     {"draw_methods": {"sample": ("sample_", _DU, [], "f")}, "param_types": {"D": _DU}}, {}),
    ('fn f(d: D, b: bool) -> bool { b && d.sample() > 0. }', None, 'a random draw inside a closure',
     {"draw_methods": {"sample": ("sample_", _DU, [], "f")}, "param_types": {"D": _DU}}, {}),
    ('struct S { a: f64, b: usize } impl S { fn f(b: usize) -> Self { S { a: 0., b } } }', '(zero O, b)', None, {"struct_literals": True}, {"owner": "S"}),
    ('struct S { a: f64, b: usize } impl S { fn f(b: usize) -> Self { S { a: 0., b } } }', None, 'struct literal is outside the subset', {}, {"owner": "S"}),
    (_MACRO, "let '(o_r, o_d) := o in let* r1 := (inner_ ((r, d)) ((o_r, o_d))) in Some (r1)", None,
     dict(_MACRO_CFG, meta_methods={"$inner": ("inner_", _MAT2, [_MAT2], ("opt", _MAT2))}), {"name": "$", "macro": "m"}),
    (_MACRO, None, 'named by a macro metavariable', _MACRO_CFG, {"name": "$", "macro": "m"}),
    ('struct V { v: Vec<f64> } impl V { fn data(&self) -> &[f64] { &self.v } fn f(&self, w: V) -> usize { self.data().len() + w.data().len() } }',
     'Z.add (rs_len ((data O (self_)))) (rs_len ((data O (w))))', None, {"newtype_self": {"V": ("list", "f")}, "param_types": {"V": ("list", "f")}}, {"owner": "V", "pre": [("data", "value")]}),
    (_UPD + 'fn f(&mut self, x: &[f64]) -> &mut Self { let y = x.to_vec(); self.upd(&y) } }', 'let y := x in let c := (upd O (c) (y)) in c', None, {},
     {"owner": "P", "pre": [("upd", "fields")], "result": "fields"}),
    (_UPD + 'fn f(&mut self, x: &[f64]) -> usize { let n = self.upd(x); 0 } }', None, 'mutates `self`', {}, {"owner": "P", "pre": [("upd", "fields")]}),
    ('macro_rules! m { ($op: tt) => { fn f(a: f64, b: f64) -> f64 { a $op b } } }', 'op_ (a) (b)', None, {"meta_ops": {"$op": {("f", "f"): ("op_", "f")}}}, {"macro": "m"}),
    ('macro_rules! m { ($op: tt) => { fn f(a: f64, b: f64) -> f64 { a $op b + 1. } } }', None, 'next to another binary operator', {"meta_ops": {"$op": {("f", "f"): ("op_", "f")}}}, {"macro": "m"}),
    ('macro_rules! m { ($op: tt) => { fn f(a: f64, b: f64) -> f64 { a $op b } } }', None, 'named by a macro metavariable', {}, {"macro": "m"}),
    ('enum E { A(usize), B } fn f(p: [E; 2]) -> usize { match p { [E::A(n), E::B] => n, [_, E::A(k)] => { k + 1 } _ => 0 } }',
     'match p with | (rs_E_A n, rs_E_B) => n | (_, rs_E_A k) => Z.add (k) (1%Z) | _ => 0%Z end', None,
     {"enum_pair_match": True, "param_types": {"[E;2]": ("tup", (("enum", "E"), ("enum", "E")))}}, {"enum": "E"}),
    ('enum E { A(usize), B } fn f(p: [E; 2]) -> usize { match p { [E::A(n), E::B] => n, _ => 0 } }', None, '`match` is outside the subset',
     {"param_types": {"[E;2]": ("tup", (("enum", "E"), ("enum", "E")))}}, {"enum": "E"}),
    ('enum E { A(usize), B } fn f(p: [E; 2]) -> usize { match p { [E::A(n), E::B] if n > 0 => n, _ => 0 } }', None, '`match` is outside the subset',
     {"enum_pair_match": True, "param_types": {"[E;2]": ("tup", (("enum", "E"), ("enum", "E")))}}, {"enum": "E"}),
    ('struct M { d: Vec<f64>, r: usize, c: usize } impl M { fn index_mut(&mut self, i: usize) -> &mut [f64] { assert!(i < self.r); &mut self.d[i * self.c..(i + 1) * self.c] } '
     'fn f(&mut self, i: usize, j: usize, v: f64, y: &[f64]) { self[i][j] = v; self[i].iter_mut().zip(y).for_each(|(a, b)| *a = *a - b); } }',
     'let* w1 := (if Z.ltb ((i)) (r) then rs_slice (d) (Z.mul ((i)) (c)) (Z.mul (Z.add ((i)) (1%Z)) (c)) else None) in let* l2 := rs_set (w1) (j) (v) in let d := rs_put_slice (d) (Z.mul ((i)) (c)) (l2) in '
     'let* w3 := (if Z.ltb ((i)) (r) then rs_slice (d) (Z.mul ((i)) (c)) (Z.mul (Z.add ((i)) (1%Z)) (c)) else None) in let d := rs_put_slice (d) (Z.mul ((i)) (c)) (rs_zip_assign (fun a b => sub O (a) (b)) (w3) (y)) in Some ((d, r, c))',
     None, {"struct_fields": {"M": [("r", "i"), ("c", "i"), ("d", ("list", "f"))]}, "param_types": {"Self": ("struct", "M")}},
     {"owner": "M", "window": ("M", "index_mut"), "result": "fields", "closure_assign": True}),
]
_L4 = [   # fourth round (same format as _L3)
    ('fn f(x: f64) -> f64 { if x.is_infinite() { x } else { x / 2. } }', '(if rs_is_infinite O (x) then x else div O (x) (two O))', None, {"float_classify": True}, {}),
    ('fn f(x: f64) -> bool { x.is_infinite() }', None, 'method `.is_infinite`', {}, {}),
    ('struct V { v: Vec<f64> } impl V { fn f(&self, i: usize) -> f64 { self[i] + 1. } }', 'let* g1 := rs_get (self_) (i) in Some (add O (g1) (one O))', None,
     {"newtype_self": {"V": ("list", "f")}, "newtype_index": True}, {"owner": "V"}),
    ('struct V { v: Vec<f64> } impl V { fn f(&self, i: usize) -> f64 { self[i] + 1. } }', None, '`self[..]` is only supported', {"newtype_self": {"V": ("list", "f")}}, {"owner": "V"}),
    ('fn f(w: &[f64]) -> bool { w.iter().all(|&x| x == 1.) }', 'forallb (fun x => eqb O (x) (one O)) (w)', None, {"iter_all": True}, {}),
    ('fn f(w: &[f64]) -> bool { w.iter().all(|&x| x == 1.) }', None, 'method `.all`', {}, {}),
    ('fn f(w: &[f64], v: &[f64]) -> bool { w.iter().all(|&x| x == v[0]) }', None, 'a closure to bool that cannot panic', {"iter_all": True}, {}),
    ('struct G { fam: Fam, a: f64 } impl G { fn f(&self, y: &[f64]) -> f64 { self.fam.dev(y) * self.a } }', 'let* r1 := (dev_ (y)) in Some (mul O (r1) (a))', None,
     {"calls": {"<fam.dev>": ("dev_", [("list", "f")], ("opt", "f"))}, "field_methods": {("fam", "dev"): "<fam.dev>"}}, {"owner": "G", "self_fields": ["a"]}),
    ('struct G { fam: Fam, a: f64 } impl G { fn f(&self, y: &[f64]) -> f64 { self.fam.dev(y) * self.a } }', None, '`self.fam` is not a field the translator models', {}, {"owner": "G", "self_fields": ["a"]}),
    ('struct G { a: f64 } impl G { fn f(&self, d: &mut [f64], c: &[f64]) { for i in 1..c.len() { d[i] += self.a * c[i]; } } }',
     'let* d := rs_fold_opt (fun d i => let* g1 := rs_get (c) (i) in let* g2 := rs_get (d) (i) in let* l3 := rs_set (d) (i) (add O (g2) (mul O (a) (g1))) in let d := l3 in Some d) (rs_range_excl (1%Z) (rs_len (c))) d in Some (d)',
     None, {}, {"owner": "G", "result": "outparams"}),
    ('struct G { a: f64 } impl G { fn f(&self, d: &mut [f64]) { d[0] = self.a; } }', None, 'type `mut[f64]`', {}, {"owner": "G"}),
    ('struct G { d: Option<f64>, p: Option<usize> } impl G { fn dev(&self) -> Result<f64, &str> { if let Some(x) = self.d { Ok(x) } else { Err("no") } } '
     'fn f(&self) -> Result<f64, &str> { let x = self.dev()?; Ok(x + self.p.unwrap() as f64) } }',
     'match (dev O (d) (p)) with Some q1 => let x := q1 in let* u2 := p in Some (Some (add O (x) (ofZ O (u2)))) | None => Some (None) end', None, {}, {"owner": "G", "pre": [("dev", "value")], "try_op": True}),
    ('fn f(x: Option<f64>) -> Option<f64> { let y = x?; Some(y) }', None, '`?` is outside the subset', {}, {}),
    ('fn f(x: Option<f64>, w: &[f64]) -> Option<f64> { let s: f64 = w.iter().map(|v| v + x?).sum(); Some(s) }', None, '`?` inside a closure', {}, {"try_op": True}),
    ('fn f(x: Option<Vec<f64>>) -> f64 { x.as_ref().unwrap()[0] }', 'let* u1 := x in let* g2 := rs_get (u1) (0%Z) in Some (g2)', None, {"option_as_ref": True}, {}),
    ('struct M { r: usize, d: Vec<f64> } impl M { fn f(&self) -> f64 { let (l, k) = self.lu(); l.d.prod() * k as f64 } }',
     "let* r1 := (lu_ ((r, d)) ) in let '((l_r, l_d), k) := r1 in Some (mul O ((prod_ (l_d) )) (ofZ O (k)))", None,
     {"struct_fields": {"M": [("r", "i"), ("d", ("list", "f"))]}, "param_types": {"Self": ("struct", "M")},
      "abstract_self_methods": {"lu": ("lu_", [], ("opt", ("tup", (("struct", "M"), "si"))))}, "list_methods": {"prod": ("prod_", [], "f")}}, {"owner": "M"}),
    ('struct M { r: usize, d: Vec<f64> } impl M { fn f(&self) -> f64 { let (l, k) = self.lu(); 0. } }', None, '`self.lu(..)` is outside the subset',
     {"struct_fields": {"M": [("r", "i"), ("d", ("list", "f"))]}, "param_types": {"Self": ("struct", "M")}}, {"owner": "M"}),
]


def selftest():
    """cheap regression test of the translator itself; every target runs it before translating"""
    for rust, want in _POS:
        m = Module("selftest.rs", rust)
        got = Translator(m, Config()).function(None, "f", "f").text.split(":=\n  ", 1)[1].rstrip(".")
        if got != want: raise Unsupported(f"rsexpr self-test: `{rust}` rendered as `{got}`, expected `{want}`")
    for rust, want in _POS_SELF:
        m = Module("selftest.rs", rust)
        got = Translator(m, Config()).function("S", "g", "g").text.split(":=\n  ", 1)[1].rstrip(".")
        if got != want: raise Unsupported(f"rsexpr self-test: `{rust}` rendered as `{got}`, expected `{want}`")
    for rust, frag in _NEG:
        try:
            m = Module("selftest.rs", rust)
            Translator(m, Config()).function(None, "f", "f")
        except Unsupported as ex:
            if frag not in str(ex) or not re.search(r"selftest\.rs:\d+:\d+", str(ex)):
                raise Unsupported(f"rsexpr self-test: `{rust}` was refused with an unexpected message: {ex}")
            continue
        raise Unsupported(f"rsexpr self-test: `{rust}` is outside the subset but was translated")
    for rust, want in _LPOS:
        got = LoopTranslator(Module("selftest.rs", rust), Config()).function(None, "f", "f").text.split(":=\n  ", 1)[1].rstrip(".")
        if got != want: raise Unsupported(f"rsexpr self-test (loops): `{rust}` rendered as `{got}`, expected `{want}`")
    for rust, want, attrs in _LPOS_CFG:
        cfg = Config(param_types=attrs.get("param_types"))
        for k, v in attrs.items():
            if k != "param_types": setattr(cfg, k, v)
        got = LoopTranslator(Module("selftest.rs", rust), cfg).function(None, "f", "f").text.split(":=\n  ", 1)[1].rstrip(".")
        if got != want: raise Unsupported(f"rsexpr self-test (loops): `{rust}` rendered as `{got}`, expected `{want}`")
    for rust, frag in _LNEG:
        try:
            LoopTranslator(Module("selftest.rs", rust), Config()).function(None, "f", "f")
        except Unsupported as ex:
            if frag not in str(ex) or not re.search(r"selftest\.rs:\d+:\d+", str(ex)):
                raise Unsupported(f"rsexpr self-test (loops): `{rust}` was refused with an unexpected message: {ex}")
            continue
        raise Unsupported(f"rsexpr self-test (loops): `{rust}` is outside the subset but was translated")
    for rust, want, frag, attrs, how in _L3 + _L4:
        cfg = Config(param_types=dict(attrs.get("param_types") or {}))
        for k, v in attrs.items():
            if k == "calls": cfg.calls.update(v)
            elif k != "param_types": setattr(cfg, k, dict(v) if isinstance(v, dict) else v)
        Parser.closure_assign = how.get("closure_assign", False)
        Parser.try_op = how.get("try_op", False)
        try:
            tr = LoopTranslator(Module("selftest.rs", rust), cfg)
            if "enum" in how: tr.enum_decl(how["enum"])
            if "window" in how: tr.window(*how["window"])
            for nm, res in how.get("pre", []): tr.function(how.get("owner"), nm, nm, result=res)
            got = tr.function(how.get("owner"), how.get("name", "f"), "f", macro=how.get("macro"), result=how.get("result", "value"),
                              **({"self_fields": how["self_fields"]} if "self_fields" in how else {})).text.split(":=\n  ", 1)[1].rstrip(".")
        except Unsupported as ex:
            if frag is None or frag not in str(ex) or not re.search(r"selftest\.rs:\d+:\d+", str(ex)):
                raise Unsupported(f"rsexpr self-test (third / fourth round): `{rust}` was refused with an unexpected message: {ex}")
            continue
        finally: Parser.closure_assign = False; Parser.try_op = False
        if frag is not None: raise Unsupported(f"rsexpr self-test (third round): `{rust}` is outside the subset but was translated")
        if got != want: raise Unsupported(f"rsexpr self-test (third round): `{rust}` rendered as `{got}`, expected `{want}`")
    return len(_POS) + len(_POS_SELF) + len(_NEG) + len(_LPOS) + len(_LPOS_CFG) + len(_LNEG) + len(_L3) + len(_L4)



if __name__ == "__main__":
    # debugging aid:  rsexpr.py file.rs [Owner] fn [moment]
    a = sys.argv[1:]
    if a == ["--selftest"]:
        print("self-test ok:", selftest(), "cases"); sys.exit(0)
    m = Module(a[0])
    owner, name = (a[1], a[2]) if len(a) > 2 and a[2] != "moment" else (None, a[1])
    tr = Translator(m, Config(calls={"gamma": ("Gam", ["f"], "f"), "beta": ("Bet", ["f", "f"], "f"), "erf": ("Erf", ["f"], "f")}))
    print(tr.function(owner, name, (owner + "_" if owner else "") + name, mode="moment" if a[-1] == "moment" else "plain").text)
