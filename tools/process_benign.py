#!/usr/bin/env python3
"""tools/process_benign.py [ID-bk ...]: behaviour-preserving refactors (the property still holds) from /tmp/seed/out/<ID>-b<k>/ :
confirm (patch applies, crate tests pass, the property demo passes with and without the change), run the property's quick check against the
change, and record the verdict under benign/<ID>-b<k>/.  Verdicts: GREEN (exit 0), BROKEN-OBLIGATION (VIOLATION ... no-failing-input-found:
the designed verdict when a rewrite changes bits or leaves a translator's subset), FALSE-ALARM (a failing input was reported although the
property holds: the oracle is wrong and must be corrected)."""
import json, os, re, subprocess, sys, shutil
OUT = "/tmp/seed/out"; ROOT = os.environ.get("VERIF_ROOT", "/verif")
names = sys.argv[1:] or sorted(d for d in os.listdir(OUT) if "-b" in d)
for d in names:
    src = os.path.join(OUT, d); prop = d.split("-")[0]; wt = f"/tmp/seed/wt-{prop}"
    if not os.path.exists(os.path.join(src, "patch.diff")): continue
    conf = ""
    for attempt in range(3):
        conf = subprocess.run(["tools/confirm_seed.sh", wt, src], capture_output=True, text=True, cwd=ROOT).stdout.strip().splitlines()[-1]
        if re.search(r"ok. 6[6-9] passed; 0 failed", conf): break
    m = re.search(r"demo_with_change_exit=(\d+) demo_without_exit=(\d+)", conf)
    ok = re.search(r"ok. 6[6-9] passed; 0 failed", conf) and "doc: test result: ok. 3 passed" in conf and m and m.group(1) == "0" and m.group(2) == "0"
    if not ok:
        print(f"{d} UNCONFIRMED {conf[:300]}"); continue
    out = subprocess.run(["tools/try_seed.sh", prop, os.path.join(src, "patch.diff"), "quick"], capture_output=True, text=True, cwd=ROOT).stdout
    classes, broken = [], []
    for mm in re.finditer(r"VIOLATION property=\S+ replay=(\S+)", out):
        rp = os.path.join(ROOT, mm.group(1))
        if os.path.exists(rp):
            r = json.load(open(rp))
            if r.get("kind") == "failing-input": classes.append((r["class"], r.get("what", "")[:300], r.get("input", "")[:300])); broken = r.get("broken_obligations", broken)
            else: broken = [x["obligation"] for x in r.get("no_longer_checks", [])]
    rc = re.search(r"exit=(\d+)", out); ob = re.search(r"obligations (\d+)/(\d+)", out)
    kinds = sorted(set(("correspondence" if b.startswith("correspondence") else b.split(":")[0]) for b in broken))
    verdict = "NOAPPLY" if "does not apply" in out else "GREEN" if rc and rc.group(1) == "0" else "FALSE-ALARM" if classes else "BROKEN-OBLIGATION"
    print(f"{d} {verdict} obligations {ob.group(1) + '/' + ob.group(2) if ob else '?'} broken={kinds} classes={[c[0] for c in classes][:4]}")
    if verdict == "FALSE-ALARM":
        for c in classes[:3]: print("    ", c)
    dst = os.path.join("/verif", "benign", d); os.makedirs(dst, exist_ok=True)
    for f in ("patch.diff", "demo.rs"): shutil.copy2(os.path.join(src, f), os.path.join(dst, f))
    meta = json.load(open(os.path.join(src, "meta.json")))
    meta.update({"property": prop, "confirmed": "tools/confirm_seed.sh: patch applies, 66 + 3 crate tests pass, the property demo passes with and without the change",
                 "ran": f"tools/try_seed.sh {prop} benign/{d}/patch.diff quick", "verdict": verdict, "broken_obligations": kinds,
                 "reported_classes": [c[0] for c in classes]})
    json.dump(meta, open(os.path.join(dst, "meta.json"), "w"), indent=1)
