#!/usr/bin/env python3
"""Regenerate the generated blocks of DESIGN.md (between <!-- GEN:x --> and <!-- /GEN:x -->):
   findings  : every fixed:/finding: line of known_findings.txt as a table
   seeds     : every kept seeded change (seeded/*/meta.json) with the check(s) that catch it
   asbuilt   : per property: pinned theorems, Tie-A translators, correspondence size, claim, what is not proved"""
import json, os, re, glob
ROOT = os.path.dirname(os.path.dirname(os.path.abspath(__file__)))
def esc(s): return s.replace("|", "\\|").replace("\n", " ")
def findings():
    rows = ["| property | status | commit in /repo | what failed (failing input) |", "|---|---|---|---|"]
    for line in open(os.path.join(ROOT, "known_findings.txt")):
        line = line.strip()
        m = re.match(r"fixed:\s+property=(\S+)\s+(\S+)\s+(.*)", line)
        if m: rows.append(f"| {m.group(1)} | fixed | `{m.group(2)}` | {esc(m.group(3))} |"); continue
        m = re.match(r"finding:\s+property=(\S+)\s+class=\[(.*?)\]\s+(.*)", line)
        if m: rows.append(f"| {m.group(1)} | known finding (class `{m.group(2)}`) | — | {esc(m.group(3))} |")
    rows.sort(key=lambda r: (0 if r.startswith("| property") or r.startswith("|---") else 1, r.split("|")[1] if not r.startswith("|---") else ""))
    return "\n".join(rows)
def seeds():
    rows = ["| seed | property | what it changes | what it needs to manifest | caught by |", "|---|---|---|---|---|"]
    for d in sorted(glob.glob(os.path.join(ROOT, "seeded", "*"))):
        mp = os.path.join(d, "meta.json")
        if not os.path.exists(mp): continue
        m = json.load(open(mp))
        rows.append(f"| {os.path.basename(d)} | {m.get('property','')} | {esc(m.get('title') or m.get('summary') or m.get('what_breaks',''))[:300]} | {esc(str(m.get('needs_to_manifest', m.get('needs',''))))[:300]} | {esc(m.get('detected_by') or m.get('detected',''))[:600]} |")
    return "\n".join(rows)
def benign():
    rows = ["| change | property | what it rewrites | output bits change | verdict of the quick check | obligations that no longer check |", "|---|---|---|---|---|---|"]
    for d in sorted(glob.glob(os.path.join(ROOT, "benign", "*"))):
        mp = os.path.join(d, "meta.json")
        if not os.path.exists(mp): continue
        m = json.load(open(mp))
        rows.append(f"| {os.path.basename(d)} | {m.get('property','')} | {esc(m.get('title') or m.get('what_changes',''))[:300]} | {'yes' if m.get('bits_change') else 'no'} | {m.get('verdict','')} | {', '.join(m.get('broken_obligations') or []) or '—'} |")
    return "\n".join(rows)
def asbuilt():
    rows = ["| id | pinned theorems | Tie A (regenerated from /repo/src every run) | correspondence cases quick (distinct non-trivial) | oracle evaluations quick | not proved (explored by the oracle only / assumed) |", "|---|---|---|---|---|---|"]
    for p in sorted(glob.glob(os.path.join(ROOT, "tools", "props.d", "C*.json"))):
        pid = os.path.basename(p)[:-5]; c = json.load(open(p))
        pf = os.path.join(ROOT, "coq", "theories", "Properties", pid + ".v")
        nth = len(re.findall(r"^\s*(?:Theorem|Lemma|Corollary)\s+\w+", open(pf).read(), re.M)) if os.path.exists(pf) else 0
        ev = {}
        ep = os.path.join(ROOT, "evidence", pid + ".json")
        if os.path.exists(ep):
            try: ev = json.load(open(ep))["coverage"]
            except Exception: ev = {}
        rows.append(f"| {pid} | {nth} | {', '.join(c.get('tie_a', [])) or '—'} | {ev.get('evaluations','?')} ({ev.get('distinct_nontrivial','?')}) | {ev.get('oracle_evaluations','?')} | {esc(c.get('not_proved',''))[:700]} |")
    return "\n".join(rows)
def axioms():
    ax = {}
    for f in sorted(glob.glob(os.path.join(ROOT, "evidence", "*.json"))):
        try: e = json.load(open(f))
        except Exception: continue
        for t in e["coverage"].get("trusted_base", []):
            if t.startswith("axioms reported by Print Assumptions") and ": " in t:
                for a in t.split(": ", 1)[1].split(", "):
                    ax.setdefault(a.strip(), set()).add(e["property_id"])
    logical = {a: ps for a, ps in ax.items() if not re.match(r"(PrimFloat|PrimInt63|FloatAxioms|Uint63|Sint63)\.", a)}
    rows = ["| axiom (as `Print Assumptions` names it) | declared by | reached from the pinned theorems of |", "|---|---|---|"]
    for a, ps in sorted(logical.items()):
        rows.append(f"| `{a}` | Coq standard library | {', '.join(sorted(ps))} |")
    for grp, what in (("PrimFloat", "primitive binary64 operations (kernel primitives)"), ("FloatAxioms", "stdlib specifications of the primitive floats (`*_spec`, `Prim2SF_*`)"),
                      ("PrimInt63", "primitive 63-bit integers (kernel primitives; via Flocq/Interval big-integer floats)"), ("Uint63", "stdlib specifications of the primitive integers")):
        names = sorted(a for a in ax if a.startswith(grp + "."))
        ps = sorted(set().union(*[ax[a] for a in names])) if names else []
        if names: rows.append(f"| `{grp}.*` ({len(names)} names, e.g. `{names[0]}`) | Coq standard library: {what} | {', '.join(ps)} |")
    return "\n".join(rows)
def summary():
    nth = 0; nprop = 0
    for pf in sorted(glob.glob(os.path.join(ROOT, "coq", "theories", "Properties", "C*.v"))):
        nprop += 1; nth += len(re.findall(r"^\s*(?:Theorem|Lemma|Corollary)\s+\w+", open(pf).read(), re.M))
    nfix = nfind = 0
    for line in open(os.path.join(ROOT, "known_findings.txt")):
        if line.startswith("fixed:"): nfix += 1
        if line.startswith("finding:"): nfind += 1
    seeds = [json.load(open(m)) for m in glob.glob(os.path.join(ROOT, "seeded", "*", "meta.json"))]
    strengthened = sum(1 for m in seeds if "STRENGTHENED" in (m.get("detected_by") or m.get("detected") or "") or "strengthened" in (m.get("detected_by") or m.get("detected") or ""))
    nv = sum(1 for _ in glob.glob(os.path.join(ROOT, "coq", "theories", "*", "*.v")))
    nlines = sum(len(open(f).read().splitlines()) for f in glob.glob(os.path.join(ROOT, "coq", "theories", "*", "*.v")))
    ntiea = len(glob.glob(os.path.join(ROOT, "tools", "tiea", "*.py")))
    return (f"* properties claimed: {nprop} of 20 (none not applicable); pinned theorems in `Properties/*.v`: **{nth}**; Coq sources: {nv} files, {nlines} lines; Tie-A translators: {ntiea}\n"
            f"* defects repaired in `/repo` (one `fix:` commit each): **{nfix}**; recorded findings not repaired: {nfind} (classes listed in D.1)\n"
            f"* seeded changes kept under `seeded/`: **{len(seeds)}** (fresh sub-agents, property text only); caught by the quick tier with a failing input: {len(seeds)} — of which "
            f"{len(seeds) - strengthened} at the first run and {strengthened} only after a generator / oracle was strengthened (each recorded in its `meta.json` and in D.3)")
def main():
    p = os.path.join(ROOT, "DESIGN.md"); s = open(p).read()
    for name, fn in (("findings", findings), ("seeds", seeds), ("benign", benign), ("asbuilt", asbuilt), ("axioms", axioms), ("summary", summary)):
        a, b = f"<!-- GEN:{name} -->", f"<!-- /GEN:{name} -->"
        if a in s and b in s:
            i, j = s.index(a) + len(a), s.index(b)
            s = s[:i] + "\n" + fn() + "\n" + s[j:]
    open(p, "w").write(s)
if __name__ == "__main__": main()
