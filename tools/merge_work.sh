#!/bin/sh
# tools/merge_work.sh <NAME> <id> [<id>...]: bring a helper's new files from /tmp/w/<NAME>/verif into /verif.
# New files only (never overwrites an existing file), plus the property's own harness module(s) and config.
set -e
N="$1"; shift; W=/tmp/w/$N/verif
rsync -a --ignore-existing --exclude '*.vo' --exclude '*.vok' --exclude '*.vos' --exclude '*.glob' --exclude '.*.aux' \
      --exclude '.lia.cache' --exclude '.nia.cache' "$W/coq/theories/" /verif/coq/theories/
rsync -a --ignore-existing "$W/tools/tiea/" /verif/tools/tiea/
rsync -a --ignore-existing --exclude 'c[0-9][0-9].rs' "$W/harness/src/props/" /verif/harness/src/props/
for id in "$@"; do
  lc=$(echo "$id" | tr 'A-Z' 'a-z')
  cp "$W/harness/src/props/$lc.rs" /verif/harness/src/props/$lc.rs
  cp "$W/tools/props.d/$id.json" /verif/tools/props.d/$id.json
done
mkdir -p /verif/reports; [ -f /tmp/w/$N/REPORT.md ] && cp /tmp/w/$N/REPORT.md /verif/reports/$N.md || true
git -C /tmp/w/$N/repo log --oneline main..HEAD 2>/dev/null || git -C /tmp/w/$N/repo log --oneline -8
