#!/bin/sh
# tools/on_tree.sh <git-rev-of-/repo> <PROP> [tier]: run PROP's failure-search oracle against another revision of
# /repo (e.g. the original snapshot, to confirm that each `fixed:` finding is exhibited there). Scratch under /tmp/ontree.
set -e
REV="$1"; P="$2"; TIER="${3:-quick}"
D=/tmp/ontree/$REV
mkdir -p /tmp/ontree
[ -d "$D/repo" ] || git -C /repo worktree add -q --detach "$D/repo" "$REV"
mkdir -p "$D/harness"
rsync -a --exclude target /verif/harness/ "$D/harness/"
sed -i "s#path = \"/repo\"#path = \"$D/repo\"#" "$D/harness/Cargo.toml"
(cd "$D/harness" && CARGO_NET_OFFLINE=true cargo build --release --offline 2>&1 | grep -E "^(error|warning: unused)" -A5 | head -20)
"$D/harness/target/release/harness" oracle "$P" --tier "$TIER" --seed "${VERIF_SEED:-1}" --out "$D/$P.oracle.json"
python3 -c "
import json,sys
d=json.load(open('$D/$P.oracle.json'))
print(d['oracle_evaluations'],'oracle evaluations on', '$REV')
for f in d['findings']: print(' -',f['class'],'|',f['what'][:160],'|',f['input'][:120])
"
