#!/usr/bin/env python3
"""tools/process_seeds.py [ID-k ...]: for every seeded change under /tmp/seed/out (or the ones named): confirm it in its scratch worktree
(tools/confirm_seed.sh), run its property's quick check against it (tools/try_seed.sh: git -C /repo apply; ./check; checkout), and keep it under
seeded/<ID-k>/ with what was run and what caught it.  Prints one line per seed: CAUGHT / NOINPUT (only no-failing-input-found) / MISSED / UNCONFIRMED."""
import json, os, re, subprocess, sys
OUT = "/tmp/seed/out"; ROOT = os.environ.get("VERIF_ROOT", "/verif")
names = sys.argv[1:] or sorted(os.listdir(OUT))
for d in names:
    src = os.path.join(OUT, d); prop = d.split("-")[0]
    if not os.path.exists(os.path.join(src, "patch.diff")): continue
    wt = f"/tmp/seed/wt-{prop}"
    conf = ""
    for attempt in range(3):   # the crate has one flaky statistical unit test (t::tests::test_moments): retry
        conf = subprocess.run(["tools/confirm_seed.sh", wt, src], capture_output=True, text=True, cwd=ROOT).stdout.strip().splitlines()[-1]
        if "ok. 66 passed" in conf: break
    m = re.search(r"demo_with_change_exit=(\d+) demo_without_exit=(\d+)", conf)
    ok = "ok. 66 passed" in conf and "doc: test result: ok. 3 passed" in conf and m and m.group(1) != "0" and m.group(2) == "0"
    if not ok:
        print(f"{d} UNCONFIRMED {conf[:300]}"); continue
    out = subprocess.run(["tools/try_seed.sh", prop, os.path.join(src, "patch.diff"), "quick"], capture_output=True, text=True, cwd=ROOT).stdout
    open(os.path.join(src, "try.out"), "w").write(out)
    classes, broken = [], []
    for mm in re.finditer(r"VIOLATION property=\S+ replay=(\S+)", out):
        rp = os.path.join(ROOT, mm.group(1))
        if os.path.exists(rp):
            r = json.load(open(rp))
            if r.get("kind") == "failing-input": classes.append(r["class"]); broken = r.get("broken_obligations", broken)
            else: broken = [x["obligation"] for x in r.get("no_longer_checks", [])]
    ob = re.search(r"obligations (\d+)/(\d+)", out)
    rc = re.search(r"exit=(\d+)", out)
    kinds = sorted(set(("correspondence" if b.startswith("correspondence") else b.split(":")[0]) for b in broken))
    if "patch does not apply" in out or "dirty" in out: verdict = "NOAPPLY"
    elif rc and rc.group(1) == "0": verdict = "MISSED"
    elif classes: verdict = "CAUGHT"
    else: verdict = "NOINPUT"
    obs = f"{ob.group(1)}/{ob.group(2)}" if ob else "?"
    if verdict == "CAUGHT":
        text = f"quick: exit 1, {len(classes)} VIOLATION line(s) with failing input; oracle classes: {', '.join(classes[:6])}; obligations {obs} (broken: {', '.join(kinds) or 'none: caught by the failure-search oracle alone'})."
    elif verdict == "NOINPUT":
        text = f"quick: exit 1, VIOLATION ... no-failing-input-found; obligations {obs} (broken: {', '.join(kinds)}); the failure search found no concrete input."
    else:
        text = f"quick: {verdict}; obligations {obs}."
    print(f"{d} {verdict} obligations {obs} classes={classes[:4]} broken={kinds}")
    if verdict in ("CAUGHT", "NOINPUT", "MISSED"):
        subprocess.run(["python3", "tools/keep_seed.py", src, d, prop, "tests 66+3 ok (tools/confirm_seed.sh); demo fails with the change, passes without", text], cwd="/verif", capture_output=True)
