#!/bin/sh
# tools/all_seeds.sh [pattern]: run every kept seeded change (seeded/<ID>-<k>/patch.diff) against its property's quick check; one line each.
cd /verif
for d in seeded/${1:-*}/; do
  n=$(basename "$d"); P=$(python3 -c "import json;print(json.load(open('$d/meta.json'))['property'])")
  out=$(tools/try_seed.sh "$P" "$d/patch.diff" quick 2>&1)
  rc=$(echo "$out" | grep -o "exit=[0-9]*" | head -1)
  nv=$(echo "$out" | grep -c "^VIOLATION")
  nf=$(echo "$out" | grep -c "no-failing-input-found")
  echo "$n $P $rc violations=$nv no-failing-input=$nf $(echo "$out" | grep -E "does not apply|dirty" | head -1)"
done
