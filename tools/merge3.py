#!/usr/bin/env python3
"""tools/merge3.py <NAME> [--dry]: 3-way merge of a helper's workspace /tmp/w/<NAME>/verif into /verif, base = the commit in /tmp/w/<NAME>/BASE.
New files are copied; files the helper changed are merged with `git merge-file`; a conflict leaves /verif's file untouched and writes the marked merge to
/tmp/conflict/<NAME>/<path>.  Skipped: evidence/, replays/, build outputs, Generated/, cases, MANIFEST.json, the generated blocks are re-generated afterwards."""
import os, subprocess, sys, shutil, filecmp
name = sys.argv[1]; dry = "--dry" in sys.argv
W = f"/tmp/w/{name}/verif"; base = open(f"/tmp/w/{name}/BASE").read().strip()
SKIP_DIRS = ("evidence/", "replays/", "harness/target/", "harness/bin/", "coq/theories/Generated/", "harness/cases/", "cases/", "coq/cases/", "benign/", "seeded/", "reports/", ".git/")
SKIP_EXT = (".vo", ".vok", ".vos", ".glob", ".aux", ".cache", ".d", ".pyc", ".lock")
SKIP_FILES = ("MANIFEST.json", "coq/Makefile", "coq/Makefile.conf", "coq/_CoqProject", "harness/Cargo.toml", "coq/.Makefile.d")
def skip(p): return p.startswith(SKIP_DIRS) or p.endswith(SKIP_EXT) or p in SKIP_FILES or "/." in "/" + p or "__pycache__" in p
tracked = set(subprocess.run(["git", "-C", "/verif", "ls-tree", "-r", "--name-only", base], capture_output=True, text=True).stdout.split("\n"))
out = []
for root, dirs, files in os.walk(W):
    rel_root = os.path.relpath(root, W)
    if rel_root.startswith(("harness/target", ".git", "evidence", "replays")): dirs[:] = []; continue
    for f in files:
        p = os.path.normpath(os.path.join(rel_root, f))
        if skip(p): continue
        theirs = os.path.join(W, p); cur = os.path.join("/verif", p)
        if p in tracked:
            b = subprocess.run(["git", "-C", "/verif", "show", f"{base}:{p}"], capture_output=True).stdout
            if open(theirs, "rb").read() == b: continue                       # helper did not change it
            if not os.path.exists(cur): out.append(("DELETED-HERE", p)); continue
            if open(cur, "rb").read() == b:
                out.append(("TAKE", p))
                if not dry: shutil.copy2(theirs, cur)
                continue
            if filecmp.cmp(cur, theirs, shallow=False): continue
            open("/tmp/m3.base", "wb").write(b)
            r = subprocess.run(["git", "merge-file", "-p", cur, "/tmp/m3.base", theirs], capture_output=True)
            if r.returncode != 0 and (p.startswith("coq/theories/Properties/") or p in ("known_findings.txt", "DESIGN.md")):
                # both sides appended blocks: keep both (ours first)
                r = subprocess.run(["git", "merge-file", "-p", "--union", cur, "/tmp/m3.base", theirs], capture_output=True)
                out.append(("UNION", p))
                if not dry: open(cur, "wb").write(r.stdout)
                continue
            if r.returncode != 0 and p.startswith("tools/props.d/") and p.endswith(".json"):
                import json
                c, t, bb = json.load(open(cur)), json.load(open(theirs)), json.loads(b)
                m = dict(c); notes = []
                for k in sorted(set(c) | set(t)):
                    cv, tv, bv = c.get(k), t.get(k), bb.get(k)
                    if tv == bv or tv == cv: continue
                    if cv == bv: m[k] = tv; continue
                    if isinstance(cv, list) and isinstance(tv, list): m[k] = cv + [x for x in tv if x not in cv]; notes.append(k + ":list-union"); continue
                    if isinstance(cv, str) and isinstance(tv, str) and isinstance(bv, str):
                        pre = os.path.commonprefix([bv, tv])
                        if tv.startswith(bv): m[k] = cv + tv[len(bv):]; notes.append(k + ":appended")
                        elif cv.startswith(bv): m[k] = tv + cv[len(bv):]; notes.append(k + ":theirs+our-suffix")
                        else: m[k] = tv + " [ALSO] " + cv[len(os.path.commonprefix([bv, cv])):]; notes.append(k + ":BOTH-REWRITTEN(check)")
                        continue
                    notes.append(k + ":kept-ours")
                out.append(("JSON-MERGED " + ",".join(notes), p))
                if not dry: json.dump(m, open(cur, "w"), indent=1)
                continue
            if r.returncode == 0:
                out.append(("MERGED", p))
                if not dry: open(cur, "wb").write(r.stdout)
            else:
                d = os.path.join("/tmp/conflict", name, p); os.makedirs(os.path.dirname(d), exist_ok=True); open(d, "wb").write(r.stdout)
                out.append(("CONFLICT", p))
        else:
            if os.path.exists(cur):
                if not filecmp.cmp(cur, theirs, shallow=False): out.append(("NEW-BOTH-DIFFER", p))
                continue
            if os.path.getsize(theirs) > 5_000_000: out.append(("SKIP-LARGE", p)); continue
            out.append(("NEW", p))
            if not dry: os.makedirs(os.path.dirname(cur) or ".", exist_ok=True); shutil.copy2(theirs, cur)
for k, p in sorted(out): print(k, p)
r = subprocess.run(["git", "-C", f"/tmp/w/{name}/repo", "log", "--oneline", "main..HEAD"], capture_output=True, text=True).stdout
print("repo commits on the helper's branch not on main:\n" + (r or "  (none)"))
