#!/bin/sh
# tools/all_seeds_parallel.sh [workers=4]: regression of EVERY kept seeded change against its property's quick check, in parallel:
# each worker gets a private copy of the framework and a private worktree of the repository (tools/mkwork.sh), so /repo and /verif are not touched.
# SEED_FILTER=<egrep pattern> restricts the run (e.g. SEED_FILTER="C02-|C10-").
# Output: one line per seed in /tmp/allseeds/result.txt  (<seed> <prop> exit=<rc> violations=<n> no-failing-input=<n>)
N="${1:-4}"; mkdir -p /tmp/allseeds; rm -f /tmp/allseeds/result.*.txt
ls -d /verif/seeded/*/ | sort | grep -E "${SEED_FILTER:-.}" > /tmp/allseeds/list.txt
for w in $(seq 1 $N); do
  ( /verif/tools/mkwork.sh as$w >/dev/null 2>&1
    export VERIF_REPO=/tmp/w/as$w/repo VERIF_ROOT=/tmp/w/as$w/verif
    awk -v n=$N -v w=$w 'NR % n == w % n' /tmp/allseeds/list.txt | while read d; do
      s=$(basename "$d"); P=$(python3 -c "import json;print(json.load(open('$d/meta.json'))['property'])")
      out=$($VERIF_ROOT/tools/try_seed.sh "$P" "$d/patch.diff" quick 2>&1)
      echo "$s $P $(echo "$out" | grep -o 'exit=[0-9]*' | head -1) violations=$(echo "$out" | grep -c '^VIOLATION') no-failing-input=$(echo "$out" | grep -c no-failing-input-found) $(echo "$out" | grep -E 'does not apply|dirty' | head -1)" >> /tmp/allseeds/result.$w.txt
    done
    git -C /repo worktree remove --force /tmp/w/as$w/repo; git -C /repo branch -D w-as$w -q; rm -rf /tmp/w/as$w ) &
done
wait
cat /tmp/allseeds/result.*.txt | sort > /tmp/allseeds/result.txt
echo "seeds: $(wc -l < /tmp/allseeds/result.txt)  caught with input: $(grep -c 'exit=1 violations=[1-9][0-9]* no-failing-input=0' /tmp/allseeds/result.txt)  other: $(grep -vc 'exit=1 violations=[1-9][0-9]* no-failing-input=0' /tmp/allseeds/result.txt)"
grep -v 'exit=1 violations=[1-9][0-9]* no-failing-input=0' /tmp/allseeds/result.txt
