"""Tie A for C11 (and the predicates C01 owns): the linear-algebra kernels on flat row-major slices translated statement
for statement by the statement-level translator (LoopTranslator of tools/rsexpr.py) into
coq/theories/Generated/linalg_loops.v:
  src/linalg/decomposition/substitution.rs  forward_substitution, backward_substitution
  src/linalg/decomposition/cholesky.rs      try_cholesky, cholesky, cholesky_solve
  src/linalg/decomposition/lu.rs            lu, lu_solve
  src/linalg/utils.rs                       is_matrix, is_symmetric, is_positive_definite, diag, transpose, ipiv_parity
Proofs/TieA_linalg_loops.v proves each generated function equal to the hand-written model (Model/Subst.v,
Model/Cholesky.v, Model/LU.v, which work on ROWS: `unflatten` / `flatten` at the boundary) for every carrier and every
input; Properties/C11.v pins those equalities as C11_model_is_source_*.  The source mutates a flat `Vec<f64>` in place
(`l[i * n + j] = ..`, `lu.swap(..)`, slices `&l[(j*n)..(j*n+j)]` handed to `dot`): rendered with rs_get / rs_set /
rs_slice / rs_swap on ONE flat list, index arithmetic in Z, a panic = None.
Abstract parameters of the generated text: `is_square_` (`is_square`: an f32 square root and `% 1.`, outside the subset;
the Result it returns is an option, `.unwrap()` of `Err` = panic), `dot_` (`linalg::dot`, translated and tied in
reduce_loops), `uninit_` (the contents of `Vec::with_capacity(n)` after `unsafe { x.set_len(n) }`: an arbitrary function
of the position; the ties hold for EVERY uninit_, i.e. no uninitialised cell is ever read before it is written), `fuel_`
(rule R3: `ipiv_parity`'s `while perm[i] != i` runs at most fuel_ times, out of fuel = None; the model has the same fuel)."""
import os, sys
sys.path.insert(0, os.path.join(os.path.dirname(os.path.abspath(__file__)), ".."))
import rsexpr
from rsexpr import Module, LoopTranslator, Config

LF = ("list", "f")


def generate(src_dir):
    rsexpr.selftest()
    cfg = Config(calls={"is_square": ("is_square_", [LF], ("optval", "i")),
                        "dot": ("dot_", [LF, LF], ("opt", "f"))},
                 param_types={"Vector": LF})
    cfg.fuel_while = True      # ipiv_parity's `while perm[i] != i` (rule R3: the parameter fuel_)
    dec = os.path.join(src_dir, "linalg", "decomposition")
    out = [rsexpr.loops_header("tools/tiea/linalg_loops.py",
                               ["linalg/decomposition/substitution.rs", "linalg/decomposition/cholesky.rs", "linalg/decomposition/lu.rs", "linalg/utils.rs"], mut=True), ""]
    notes = []
    def run(path, label, fns):
        tr = LoopTranslator(Module(path), cfg)
        out.append(f"(* {label} *)")
        for fn in fns:
            out.append(tr.function(None, fn, "src_" + fn).text)
        for n in tr.notes:
            if n not in notes: notes.append(n)
        return tr
    run(os.path.join(src_dir, "linalg", "utils.rs"), "linalg/utils.rs", ["is_matrix", "is_symmetric", "is_positive_definite", "diag", "transpose", "ipiv_parity"])
    run(os.path.join(dec, "substitution.rs"), "linalg/decomposition/substitution.rs", ["forward_substitution", "backward_substitution"])
    run(os.path.join(dec, "cholesky.rs"), "linalg/decomposition/cholesky.rs", ["try_cholesky", "cholesky", "cholesky_solve"])
    run(os.path.join(dec, "lu.rs"), "linalg/decomposition/lu.rs", ["lu", "lu_solve"])
    out += ["", "(* translator notes: " + ("; ".join(notes) or "none") + " *)"]
    return "\n".join(out) + "\n"
