"""Tie A for C05: the `Dot` trait of src/linalg/array/dot.rs — the bodies of the macros `impl_mat_mat_dot` (dot, t_dot,
dot_t, t_dot_t of Matrix . Matrix), `impl_dot_append_one` (Matrix . Vector: the vector is promoted to a column),
`impl_dot_prepend_one` (Vector . Matrix: the vector is promoted to a row) and `impl_dot_vec_vec` (Vector . Vector) —
translated statement for statement by the statement-level translator (LoopTranslator of tools/rsexpr.py) into
coq/theories/Generated/dot_loops.v, together with the small methods they call: `Matrix::data`, `Matrix::to_vec`,
`Matrix::t_mut` (src/linalg/array/matrix.rs) and `Vector::to_matrix` (src/linalg/array/vec.rs).
Proofs/TieA_dot_loops.v proves each generated function equal to the hand-written model (`mat_mat_dot`, `mat_vec_dot`,
`vec_mat_dot`, `vec_vec_dot`, `to_matrix`, `t_mut` of Model/MatMul.v); Properties/C05.v pins those equalities as
C05_model_is_source_*.
A macro body is generic in `$selftype` / `$othertype` (Matrix, &Matrix, Vector, &Vector: references are transparent) and,
for the promotion wrappers, in the NAME of the function (`fn $op`) and of the inner method (`self.$innerop(o)`): the
generated function is the body; the inner method is the abstract parameter `innerop_` (receiver passed as a Matrix value),
which the theorems instantiate by the model of the method the macro invocation names.
A Matrix value is the triple (nrows, ncols, data); `self` of a Matrix method is its three fields; `self` of a Vector
method is the wrapped Vec<f64> (a list).  Abstract parameters: `matmul_` (utils.rs: tied in matmul_loops), `transpose_`
(utils.rs: tied in linalg_loops), `dot_` (utils.rs: tied in reduce_loops), `matrix_new_` (`Matrix::new`: TryInto + match,
refused in shape_loops), `innerop_`."""
import os, sys
sys.path.insert(0, os.path.join(os.path.dirname(os.path.abspath(__file__)), ".."))
import rsexpr
from rsexpr import Module, LoopTranslator, Config

LF = ("list", "f")
MAT = ("struct", "Matrix")
F = ["data", "nrows", "ncols"]


def generate(src_dir):
    rsexpr.selftest()
    cfg = Config(calls={"Matrix::new": ("matrix_new_", [LF, "si", "si"], ("opt", MAT)),
                        "matmul": ("matmul_", [LF, LF, "i", "i", "b", "b"], ("opt", LF)),
                        "transpose": ("transpose_", [LF, "i"], ("opt", LF)),
                        "dot": ("dot_", [LF, LF], ("opt", "f"))},
                 param_types={"Vector": LF, "Self": MAT, "Matrix": MAT})
    cfg.struct_fields = {"Matrix": [("nrows", "i"), ("ncols", "i"), ("data", LF)]}
    cfg.owner_structs = {"selftype": [("data", "Vector"), ("nrows", "usize"), ("ncols", "usize")]}
    cfg.newtype_self = {"Vector": LF}
    cfg.meta_methods = {"$innerop": ("innerop_", MAT, [MAT], ("opt", MAT))}
    arr = os.path.join(src_dir, "linalg", "array")
    out = [rsexpr.loops_header("tools/tiea/dot_loops.py", ["linalg/array/matrix.rs", "linalg/array/vec.rs", "linalg/array/dot.rs"], mut=True), ""]
    notes = []
    def keep(tr):
        for n in tr.notes:
            if n not in notes: notes.append(n)
    tr = LoopTranslator(Module(os.path.join(arr, "matrix.rs")), cfg)
    out.append("(* linalg/array/matrix.rs, impl Matrix: the fields data, nrows, ncols of `self` are the first three arguments *)")
    for fn in ["data", "to_vec"]:
        out.append(tr.function("Matrix", fn, "src_" + fn, self_fields=F).text)
    out.append(tr.function("Matrix", "t_mut", "src_t_mut", self_fields=F, result="fields").text)
    keep(tr)
    tr = LoopTranslator(Module(os.path.join(arr, "vec.rs")), cfg)
    out.append("(* linalg/array/vec.rs, impl Vector (a newtype around Vec<f64>): `self` is the list *)")
    out.append(tr.function("Vector", "to_matrix", "src_to_matrix").text)
    keep(tr)
    tr = LoopTranslator(Module(os.path.join(arr, "dot.rs")), cfg)
    cfg.param_types["$othertype"] = MAT
    out.append("(* linalg/array/dot.rs, macro impl_mat_mat_dot: `self` and `other` are Matrix (or &Matrix) *)")
    for fn in ["dot", "t_dot", "dot_t", "t_dot_t"]:
        out.append(tr.function("selftype", fn, "src_mat_mat_" + fn, macro="impl_mat_mat_dot", self_fields=F).text)
    cfg.param_types["$othertype"] = LF
    out.append("(* macro impl_dot_append_one (Matrix . Vector): `fn $op(&self, other: $othertype) -> Vector`, `other` a Vector (or &Vector) *)")
    cfg.owner_structs[None] = cfg.owner_structs["selftype"]
    out.append(tr.function(None, "$", "src_dot_append_one", macro="impl_dot_append_one", self_fields=F).text)
    out.append("(* macro impl_dot_prepend_one (Vector . Matrix): `self` a Vector, `other` a Matrix (or &Matrix) *)")
    cfg.param_types["$othertype"] = MAT
    cfg.newtype_self[None] = LF
    out.append(tr.function(None, "$", "src_dot_prepend_one", macro="impl_dot_prepend_one").text)
    out.append("(* macro impl_dot_vec_vec (Vector . Vector): `self.data()` / `other.data()` are `Vector::data`, the wrapped slice *)")
    cfg.param_types["$othertype"] = LF
    trv = LoopTranslator(Module(os.path.join(arr, "vec.rs")), cfg)
    out.append(trv.function("Vector", "data", "src_vector_data").text)      # from here on `x.data()` is Vector::data
    out.append(tr.function(None, "$", "src_dot_vec_vec", macro="impl_dot_vec_vec").text)
    keep(tr)
    out += ["", "(* translator notes: " + ("; ".join(notes) or "none") + " *)"]
    return "\n".join(out) + "\n"
