"""Tie A for C14: `PolynomialRegressor::new`, `update`, `predict`, `fit` of src/predict/polynomial.rs translated statement
for statement by the statement-level translator (LoopTranslator of tools/rsexpr.py) into
coq/theories/Generated/poly_loops.v.  Proofs/TieA_poly_loops.v proves each generated function equal to the hand-written
model of Model/Poly.v for every carrier and input; Properties/C14.v pins those equalities as C14_model_is_source_*.
Of `struct PolynomialRegressor` the field `coef` is read and written; a `&mut self` method is rendered as the field after
the call (`fit` ends in `self.update(&coeffs)`: the mutation, then `self`).  The routines of other files that `fit` calls
are abstract parameters of the generated text, instantiated in the theorems by their models: `vandermonde_` (utils.rs:
translated and tied in ctor_loops, C15_model_is_source_vandermonde), `xtx_` and `matmul_` (utils.rs: translated and tied in
matmul_loops, C05_model_is_source_xtx / _matmul), `invert_matrix_` (utils.rs: the model is parametric in it as well — the
recorded sub-call `inv` of Model/Poly.v — and C01 discharges its correctness)."""
import os, sys
sys.path.insert(0, os.path.join(os.path.dirname(os.path.abspath(__file__)), ".."))
import rsexpr
from rsexpr import Module, LoopTranslator, Config

LF = ("list", "f")


def generate(src_dir):
    rsexpr.selftest()
    cfg = Config(calls={"vandermonde": ("vandermonde_", [LF, "i"], LF),
                        "xtx": ("xtx_", [LF, "i"], ("opt", LF)),
                        "invert_matrix": ("invert_matrix_", [LF], ("opt", LF)),
                        "matmul": ("matmul_", [LF, LF, "i", "i", "b", "b"], ("opt", LF))},
                 param_types={"Vector": LF})
    tr = LoopTranslator(Module(os.path.join(src_dir, "predict", "polynomial.rs")), cfg)
    out = [rsexpr.loops_header("tools/tiea/poly_loops.py", ["predict/polynomial.rs"], mut=True), "",
           "(* impl PolynomialRegressor: the field coef of `self` is the first argument; a `&mut self` method returns the field after the call *)"]
    F = ["coef"]
    out.append(tr.function("PolynomialRegressor", "update", "src_update", self_fields=F, result="fields").text)
    out.append(tr.function("PolynomialRegressor", "predict", "src_predict", self_fields=F).text)
    out.append(tr.function("PolynomialRegressor", "fit", "src_fit", self_fields=F, result="fields").text)
    cfg.struct_literals = True      # `PolynomialRegressor { coef: .. }` ending the constructor: the value of the field
    out.append("(* the constructor: the field coef of the new object *)")
    out.append(tr.function("PolynomialRegressor", "new", "src_new").text)
    out += ["", "(* translator notes: " + ("; ".join(tr.notes) or "none") + " *)"]
    return "\n".join(out) + "\n"
