"""Tie A for C19: `bootstrap`, `jackknife`, `shuffle`, `shuffle_two` of src/validation/resample.rs translated statement for
statement by the statement-level translator (LoopTranslator of tools/rsexpr.py) into
coq/theories/Generated/resample_loops.v.  Proofs/TieA_resample_loops.v proves each generated function equal to the
hand-written model of Model/Resample.v for every element type's operations record, every input and EVERY random source;
Properties/C19.v pins those equalities as C19_model_is_source_*.
Random draws are an abstract source (rule R6 of the translator), as the sampler targets of tools/tiea/samplers.py do for
`alea::f64()`: `randomizer.sample()` / `resamp_gen.sample_n(k)` are `let* (d, rng_) := sample_ obj rng_ in ..` with the
generator state `rng_ : St_` (an abstract type) threaded through the statements in execution order and returned with the
result; `None` = the draw does not return.  The sampler object `DiscreteUniform::new(lo, hi)` is the pair (lo, hi);
`du_new_` (`DiscreteUniform::new`: panics when lo > hi; translated and tied in dist_setters) is an abstract parameter.
Rules in force for this target: R4 (`x as usize` of an f64 = Z.max 0 (truncZ x)), R5 (`x as i64` of a usize = the two's-
complement reinterpretation rs_as_i64: `(data.len() - 1) as i64` is -1 for an empty slice, through the release build's
wrapping subtraction), R6.  A panic (out-of-bounds index, `.swap` position, `split_at`, `.unwrap()` of None, `assert_eq!`,
lo > hi) is None."""
import os, sys
sys.path.insert(0, os.path.join(os.path.dirname(os.path.abspath(__file__)), ".."))
import rsexpr
from rsexpr import Module, LoopTranslator, Config

LF = ("list", "f")
DU = ("tup", ("si", "si"))
FNS = ["bootstrap", "jackknife", "shuffle", "shuffle_two"]


def generate(src_dir):
    rsexpr.selftest()
    cfg = Config(calls={"DiscreteUniform::new": ("du_new_", ["si", "si"], ("opt", DU))}, param_types={"Vector": LF})
    cfg.float_to_usize = True
    cfg.wrap_i64_cast = True
    cfg.draw_methods = {"sample": ("sample_", DU, [], "f"), "sample_n": ("sample_n_", DU, ["i"], LF)}
    tr = LoopTranslator(Module(os.path.join(src_dir, "validation", "resample.rs")), cfg)
    hdr = rsexpr.loops_header("tools/tiea/resample_loops.py", ["validation/resample.rs"], mut=True).replace("Base.RsExprMut.", "Base.RsExprMut Base.RsExprMore.")
    out = [hdr, ""]
    for fn in FNS:
        out.append(tr.function(None, fn, "src_" + fn).text)
    out += ["", "(* translator notes: " + ("; ".join(tr.notes) or "none") + " *)"]
    return "\n".join(out) + "\n"
