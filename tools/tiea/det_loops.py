"""Tie A for C01 / C11 (fourth round): the `Matrix` entry points `Matrix::inv`, `Matrix::det`, `Matrix::lu_det` of
src/linalg/array/matrix.rs, with `Matrix::is_square` and `Matrix::diag` which they call, translated statement for statement
by the statement-level translator (LoopTranslator of tools/rsexpr.py) into coq/theories/Generated/det_loops.v.
Proofs/TieA_det_loops.v proves each generated function equal to the hand-written model: `minv` of Model/Solve.v (pinned in
Properties/C01.v as C01_model_is_source_matrix_inv) and `matrix_det`, `matrix_lu_det` of Model/LU.v (pinned in
Properties/C11.v as C11_model_is_source_matrix_det, _matrix_lu_det), for every carrier and every well-formed Matrix.
`self` is its three fields; a Matrix value is the triple (nrows, ncols, data).  Abstract parameters, instantiated in the
theorems by their models: `matrix_lu_` (`self.lu()`: `lu[[i, k]]`, matrix indexing, is outside the subset — checked refused
here; the slice-level `lu` it repeats is tied in linalg_loops), `matrix_solve_` (`Solve<Matrix>::solve`, a trait method of
another impl), `matrix_eye_` (`Matrix::eye`: tied in matrix_loops), `prod_` (`Vector::prod` = utils.rs `prod`: tied in
reduce_loops), `ipiv_parity_` (utils.rs: tied in linalg_loops under its fuel)."""
import os, sys
sys.path.insert(0, os.path.join(os.path.dirname(os.path.abspath(__file__)), ".."))
import rsexpr
from rsexpr import Module, LoopTranslator, Config

LF = ("list", "f")
LI = ("list", "si")
MAT = ("struct", "Matrix")
F = ["data", "nrows", "ncols"]


def generate(src_dir):
    rsexpr.selftest()
    cfg = Config(calls={"Matrix::eye": ("matrix_eye_", ["i"], ("opt", MAT)),
                        "ipiv_parity": ("ipiv_parity_", [LI], ("opt", "si"))},
                 param_types={"Vector": LF, "Self": MAT, "Matrix": MAT})
    cfg.struct_fields = {"Matrix": [("nrows", "i"), ("ncols", "i"), ("data", LF)]}
    cfg.abstract_self_methods = {"lu": ("matrix_lu_", [], ("opt", ("tup", (MAT, LI)))),
                                 "solve": ("matrix_solve_", [MAT], ("opt", MAT))}
    cfg.list_methods = {"prod": ("prod_", [], "f")}
    tr = LoopTranslator(Module(os.path.join(src_dir, "linalg", "array", "matrix.rs")), cfg)
    out = [rsexpr.loops_header("tools/tiea/det_loops.py", ["linalg/array/matrix.rs"], mut=True), "",
           "(* impl Matrix: the fields data (Vector), nrows, ncols (usize) of `self` are the first three arguments; a Matrix value is (nrows, ncols, data) *)"]
    out.append(tr.function("Matrix", "is_square", "src_m_is_square", self_fields=F).text)
    out.append(tr.function("Matrix", "diag", "src_m_diag", self_fields=F).text)
    out.append(tr.function("Matrix", "inv", "src_matrix_inv", self_fields=F).text)
    out.append(tr.function("Matrix", "det", "src_matrix_det", self_fields=F).text)
    out.append(tr.function("Matrix", "lu_det", "src_matrix_lu_det", self_fields=F).text)
    del cfg.abstract_self_methods["lu"]
    try:
        tr.function("Matrix", "lu", "src_matrix_lu", self_fields=F)
    except rsexpr.Unsupported as ex:
        out += ["", f"(* `Matrix::lu` is outside the subset and is not translated: {str(ex).replace('*)', '* )')} *)"]
    else:
        raise rsexpr.Unsupported("matrix.rs: `Matrix::lu` used to be outside the translator's subset and now translates: add it to the target and prove its tie")
    out += ["", "(* translator notes: " + ("; ".join(tr.notes) or "none") + " *)"]
    return "\n".join(out) + "\n"
