"""Tie A for C04 (third round): `inf_norm` of src/linalg/utils.rs (with `is_matrix`, which it unwraps) translated statement for
statement by the statement-level translator (LoopTranslator of tools/rsexpr.py) into coq/theories/Generated/norm_loops.v.
Proofs/TieA_norm_loops.v proves the generated function equal to the hand-written model (`inf_norm` of Model/Vops.v) for
every carrier and input; Properties/C04.v pins the equality as C04_model_is_source_inf_norm.  (The other reductions of the
file are in tools/tiea/reduce_loops.py; `inf_norm` was refused there because it needs `.unwrap()` of a `Result`, supported
since the second round.)  `statistics::max` (another file; translated and tied in stats_loops) is the abstract parameter
`max_`, instantiated by the model `vmax`.  A panic (`is_matrix(..).unwrap()` of `Err`, a zero `nrows`, an out-of-bounds
index) is None."""
import os, sys
sys.path.insert(0, os.path.join(os.path.dirname(os.path.abspath(__file__)), ".."))
import rsexpr
from rsexpr import Module, LoopTranslator, Config


def generate(src_dir):
    rsexpr.selftest()
    cfg = Config(calls={"max": ("max_", [("list", "f")], "f")}, param_types={"Vector": ("list", "f")})
    out = [rsexpr.loops_header("tools/tiea/norm_loops.py", ["linalg/utils.rs"], mut=True), ""]
    tr = LoopTranslator(Module(os.path.join(src_dir, "linalg", "utils.rs")), cfg)
    for fn in ["is_matrix", "inf_norm"]:
        out.append(tr.function(None, fn, "src_" + fn).text)
    out += ["", "(* translator notes: " + ("; ".join(tr.notes) or "none") + " *)"]
    return "\n".join(out) + "\n"
