"""Tie A for C02: every `pdf` / `pmf` / `ln_pdf` / `cdf` / `mean` / `var` of the 13 univariate laws of
src/distributions/*.rs, translated operation for operation by the expression translator tools/rsexpr.py into
coq/theories/Generated/dists.v.  Proofs/TieA_dists.v proves each generated term equal to the hand-written model
(Model/Dists.v) for every carrier; Properties/C02.v pins those equalities as C02_model_is_source_*.

`gamma(..)`, `beta(..)`, `erf(..)` of crate::functions are abstract parameters Gam, Bet, Erf (as in the model).
mean / var are rendered in `moment` mode (Fin e | PInf for f64::INFINITY | Undef for f64::NAN).
`new` is rendered in `guard` mode: <Law>_new_guard is true iff the constructor's OWN panic!/assert! does not fire (the
struct literal, which builds cached sub-samplers, is not translated here: C18's Tie A dist_setters does that).
The trait default `Continuous::ln_pdf` (`self.pdf(x).ln()`) is translated with `self.pdf` abstract; the translator
checks that Normal is the only law that overrides it (that is what the model's dispatch says)."""
import os, sys
sys.path.insert(0, os.path.join(os.path.dirname(os.path.abspath(__file__)), ".."))
import rsexpr
from rsexpr import Module, Translator, Config, Unsupported

CONT = [("pdf", "plain"), ("mean", "moment"), ("var", "moment")]
DISC = [("pmf", "plain"), ("mean", "moment"), ("var", "moment")]
DISTS = [("bernoulli", "Bernoulli", DISC), ("beta", "Beta", CONT), ("binomial", "Binomial", DISC),
         ("chi_squared", "ChiSquared", CONT), ("discreteuniform", "DiscreteUniform", DISC),
         ("exponential", "Exponential", CONT), ("gamma", "Gamma", CONT), ("gumbel", "Gumbel", CONT),
         ("normal", "Normal", CONT + [("ln_pdf", "plain"), ("cdf", "plain")]), ("pareto", "Pareto", CONT),
         ("poisson", "Poisson", DISC), ("t", "T", CONT), ("uniform", "Uniform", CONT)]
CALLS = {"gamma": ("Gam", ["f"], "f"), "beta": ("Bet", ["f", "f"], "f"), "erf": ("Erf", ["f"], "f")}


def generate(src_dir):
    rsexpr.selftest()      # the translator checks itself first (precedence, literal rule, refusals)
    d = os.path.join(src_dir, "distributions")
    out = [rsexpr.header("tools/tiea/dists.py", ["distributions/" + f + ".rs" for f, _, _ in DISTS] + ["distributions/mod.rs"]),
           "From Compute Require Import Model.Dists.   (* only for the type [moment] *)", ""]
    notes = []
    for f, st, fns in DISTS:
        m = Module(os.path.join(d, f + ".rs"))
        tr = Translator(m, Config(calls=CALLS))
        out.append(f"(** ** {st}  (distributions/{f}.rs) *)")
        for fn, mode in fns:
            out.append(tr.function(st, fn, f"{st}_{fn}", mode=mode).text)
        out.append(tr.function(st, "new", f"{st}_new_guard", mode="guard").text)
        if st != "Normal" and ((st, "ln_pdf") in m.fns or (st, "cdf") in m.fns):
            raise Unsupported(f"{f}.rs: `{st}` now defines its own ln_pdf / cdf: Model/Dists.v dispatches only Normal's")
        for n in tr.notes:
            if n not in notes: notes.append(n)
        out.append("")
    m = Module(os.path.join(d, "mod.rs"))
    tr = Translator(m, Config(self_calls={"pdf": ("Pdf", ["f"], "f")}, param_types={"Self::PDFType": "f"}))
    out.append("(** ** the trait default [Continuous::ln_pdf]  (distributions/mod.rs); [self.pdf] abstract *)")
    out.append(tr.function("Continuous", "ln_pdf", "Continuous_ln_pdf").text)
    out.append("")
    out.append("(* translator notes: " + "; ".join(notes) + " *)")
    return "\n".join(out) + "\n"
