"""Tie A for C15 / C11 (fourth round): the approximate comparisons and the `Matrix` forms of the routing predicates.
src/linalg/array/vec.rs: the private `rel_diff` (sign-aware relative difference; `diff.is_infinite()` = rs_is_infinite of
Base/RsExprFour.v), `Vector::close_to`, `PartialEq<Vector>::eq`; src/linalg/array/matrix.rs: `Matrix::shape`, `Matrix::close_to`,
`PartialEq<Matrix>::eq`, `Matrix::is_square`, `Matrix::is_symmetric`, `Matrix::is_positive_definite` — translated statement for
statement by the statement-level translator (LoopTranslator of tools/rsexpr.py) into coq/theories/Generated/compare_loops.v.
Proofs/TieA_compare_loops.v proves each generated function equal to the hand-written model: `rel_diff`, `close_to_v`, `eq_v`,
`close_to_m`, `eq_m` of Model/Shape.v (pinned in Properties/C15.v as C15_model_is_source_*) and `matrix_is_symmetric`,
`matrix_is_positive_definite` of Model/Subst.v, the predicates `Matrix::cholesky` and `MVN::new` assert (pinned in Properties/C11.v
as C11_model_is_source_matrix_*).
`self` of a Vector method is the wrapped Vec<f64> (a list; `self[i]` / `self.len()` go through Deref); `self` of a Matrix method
is its three fields; a Matrix value (`other`) is the triple (nrows, ncols, data).  No abstract parameter: every function called
is translated here."""
import os, sys
sys.path.insert(0, os.path.join(os.path.dirname(os.path.abspath(__file__)), ".."))
import rsexpr
from rsexpr import Module, LoopTranslator, Config

LF = ("list", "f")
MAT = ("struct", "Matrix")
F = ["data", "nrows", "ncols"]


def generate(src_dir):
    rsexpr.selftest()
    cfg = Config(param_types={"Vector": LF, "Self": MAT, "Matrix": MAT})
    cfg.struct_fields = {"Matrix": [("nrows", "i"), ("ncols", "i"), ("data", LF)]}
    cfg.newtype_self = {"Vector": LF}
    cfg.float_classify = True      # `x.is_infinite()`
    cfg.newtype_index = True       # `self[i]` in a Vector method
    cfg.int_list_eq = True         # `self.shape() != other.shape()`
    arr = os.path.join(src_dir, "linalg", "array")
    hdr = rsexpr.loops_header("tools/tiea/compare_loops.py", ["linalg/array/vec.rs", "linalg/array/matrix.rs"], mut=True)
    out = [hdr.replace("Base.RsExprMut.", "Base.RsExprMut Base.RsExprMore Base.RsExprFour."), ""]
    notes = []
    tr = LoopTranslator(Module(os.path.join(arr, "vec.rs")), cfg)
    out.append("(* linalg/array/vec.rs: the free function `rel_diff`; impl Vector (a newtype around Vec<f64>): `self` is the list *)")
    out.append(tr.function(None, "rel_diff", "src_rel_diff").text)
    out.append(tr.function("Vector", "close_to", "src_vector_close_to").text)
    notes += [n for n in tr.notes if n not in notes]
    trm = LoopTranslator(Module(os.path.join(arr, "matrix.rs")), cfg)
    out.append("(* linalg/array/matrix.rs, impl Matrix: the fields data, nrows, ncols of `self` are the first three arguments; a Matrix value is (nrows, ncols, data) *)")
    out.append(trm.function("Matrix", "shape", "src_shape", self_fields=F).text)
    out.append(trm.function("Matrix", "close_to", "src_matrix_close_to", self_fields=F).text)      # `self.data.close_to(..)` is Vector::close_to
    out.append("(* impl PartialEq<Vector> for Vector, impl PartialEq<Matrix> for Matrix *)")
    out.append(tr.function("Vector", "eq", "src_vector_eq").text)
    out.append(trm.function("Matrix", "eq", "src_matrix_eq", self_fields=F).text)                  # `self.data.eq(..)` is Vector's eq
    out.append("(* the routing predicates of `Matrix::cholesky` / `MVN::new` *)")
    for fn in ["is_square", "is_symmetric", "is_positive_definite"]:
        out.append(trm.function("Matrix", fn, "src_matrix_" + fn, self_fields=F).text)
    notes += [n for n in trm.notes if n not in notes]
    out += ["", "(* translator notes: " + ("; ".join(notes) or "none") + " *)"]
    return "\n".join(out) + "\n"
