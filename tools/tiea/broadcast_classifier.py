#!/usr/bin/env python3
"""Tie A translator: `enum Broadcast` and `fn calc_broadcast_shape` of src/linalg/array/broadcast.rs
-> coq/theories/Generated/broadcast_classifier.v.

Subset handled (anything else raises `Unsupported` with the source line):
  * a fieldless-or-`usize`-payload enum;
  * a function whose parameters are all `&Matrix` and whose body is a block
        block := ( `assert!(cond);` | `let [x, y] = <self>(ma, mb);` )*  tail
        tail  := `if cond block (else if cond block)* else block` | `[ b , b ]`
        b     := `Enum::Variant` | `Enum::Variant(nat)` | a `let`-bound identifier
        cond  := disjunctions / conjunctions / parentheses of
                 `nat == nat` | `m.shape() == m.shape()` | `m.shape().contains(&LIT)`
        nat   := `m.nrows` | `m.ncols` | integer literal
  * the only call allowed is a direct recursive call (the operand swap); it is translated with explicit
    fuel, and Proofs/C12.v proves that fuel 2 is enough for every input (`classifier_fuel_stable`).
A Matrix parameter `m` becomes the two `nat` parameters `m_nrows m_ncols`; `m.shape()` is `[m.nrows, m.ncols]`
(checked against `fn shape` in matrix.rs).  A failed `assert!` and fuel exhaustion are `None`.
"""
import os, re

class Unsupported(Exception):
    pass

TOK = re.compile(r"\s*(?:(//[^\n]*)|([A-Za-z_][A-Za-z0-9_]*!?)|(\d+)|(::|==|\|\||&&|->|[()\[\]{},;.&=:<>!+\-*/%|]))")

def tokenize(src, line0):
    toks, i, line = [], 0, line0
    while i < len(src):
        m = TOK.match(src, i)
        if not m:
            if src[i:].strip() == "":
                break
            raise Unsupported(f"line {line + src.count(chr(10), 0, i)}: cannot tokenize {src[i:i+30]!r}")
        ln = line0 + src.count("\n", 0, m.end())
        if m.group(1) is None:
            kind = "id" if m.group(2) else "num" if m.group(3) else "p"
            toks.append((kind, m.group(2) or m.group(3) or m.group(4), ln))
        i = m.end()
    return toks

def extract_item(src, header_re, what):
    """text of the item starting at header_re up to its matching closing brace; returns (text, first line)"""
    m = re.search(header_re, src)
    if not m:
        raise Unsupported(f"{what} not found")
    i = src.index("{", m.start())
    depth, j = 0, i
    while j < len(src):
        if src.startswith("//", j):
            j = src.index("\n", j)
            continue
        if src[j] == "{": depth += 1
        elif src[j] == "}":
            depth -= 1
            if depth == 0:
                return src[m.start():j + 1], src.count("\n", 0, m.start()) + 1
        j += 1
    raise Unsupported(f"{what}: unbalanced braces")

class P:
    def __init__(self, toks, enum, variants, fname):
        self.t, self.i = toks, 0
        self.enum, self.variants, self.fname = enum, variants, fname
        self.params = []
    def peek(self, k=0):
        return self.t[self.i + k] if self.i + k < len(self.t) else ("eof", "", -1)
    def fail(self, msg):
        k, v, ln = self.peek()
        raise Unsupported(f"broadcast.rs line {ln}: {msg} (at {v!r})")
    def eat(self, val=None, kind=None):
        k, v, ln = self.peek()
        if (val is not None and v != val) or (kind is not None and k != kind):
            self.fail(f"expected {val or kind}")
        self.i += 1
        return v
    def at(self, val):
        return self.peek()[1] == val

    # fn name(m1: &Matrix, m2: &Matrix) -> [Enum; 2] block
    def function(self):
        while self.peek()[1] in ("pub", "(", "crate", ")"):
            self.i += 1
        self.eat("fn"); self.eat(self.fname); self.eat("(")
        while not self.at(")"):
            name = self.eat(kind="id"); self.eat(":"); self.eat("&"); self.eat("Matrix")
            self.params.append(name)
            if self.at(","): self.eat(",")
        self.eat(")"); self.eat("->"); self.eat("["); self.eat(self.enum); self.eat(";"); self.eat("2"); self.eat("]")
        body = self.block({})
        if self.peek()[0] != "eof":
            self.fail("trailing tokens after the function")
        return body

    def block(self, env):
        self.eat("{")
        stmts = []
        env = dict(env)
        while True:
            if self.at("assert!"):
                self.eat("assert!"); self.eat("("); c = self.cond(); self.eat(")"); self.eat(";")
                stmts.append(("assert", c))
            elif self.at("let"):
                self.eat("let"); self.eat("["); x = self.eat(kind="id"); self.eat(","); y = self.eat(kind="id"); self.eat("]")
                self.eat("="); self.eat(self.fname); self.eat("(")
                args = [self.eat(kind="id")]
                while self.at(","):
                    self.eat(","); args.append(self.eat(kind="id"))
                self.eat(")"); self.eat(";")
                if len(args) != len(self.params) or any(a not in self.params for a in args):
                    self.fail("recursive call with arguments that are not the function's parameters")
                stmts.append(("letrec", x, y, args))
                env[x] = env[y] = True
            else:
                break
        tail = self.tail(env)
        self.eat("}")
        return ("block", stmts, tail)

    def tail(self, env):
        if self.at("if"):
            self.eat("if"); c = self.cond(); th = self.block(env)
            self.eat("else")
            el = ("block", [], self.tail(env)) if self.at("if") else self.block(env)
            return ("if", c, th, el)
        if self.at("["):
            self.eat("["); a = self.bval(env); self.eat(","); b = self.bval(env); self.eat("]")
            return ("pair", a, b)
        self.fail("expected `if` or a `[b1, b2]` result")

    def bval(self, env):
        k, v, ln = self.peek()
        if v == self.enum:
            self.eat(self.enum); self.eat("::"); name = self.eat(kind="id")
            if name not in self.variants: self.fail(f"unknown variant {name}")
            if self.variants[name]:
                self.eat("("); n = self.nat(); self.eat(")")
                return ("ctor", name, n)
            return ("ctor", name, None)
        if k == "id" and v in env:
            self.eat(); return ("var", v)
        self.fail("expected an enum value or a let-bound name")

    def cond(self):
        c = self.conj()
        while self.at("||"):
            self.eat("||"); c = ("or", c, self.conj())
        return c
    def conj(self):
        c = self.atom()
        while self.at("&&"):
            self.eat("&&"); c = ("and", c, self.atom())
        return c
    def atom(self):
        if self.at("("):
            self.eat("("); c = self.cond(); self.eat(")"); return c
        k, v, ln = self.peek()
        if k == "id" and v in self.params and self.peek(1)[1] == "." and self.peek(2)[1] == "shape":
            s1 = self.shape()
            if self.at("."):
                self.eat("."); self.eat("contains"); self.eat("("); self.eat("&"); lit = self.eat(kind="num"); self.eat(")")
                return ("or", ("eq", s1[0], ("lit", lit)), ("eq", s1[1], ("lit", lit)))
            self.eat("=="); s2 = self.shape()
            return ("and", ("eq", s1[0], s2[0]), ("eq", s1[1], s2[1]))
        a = self.nat(); self.eat("=="); b = self.nat()
        return ("eq", a, b)
    def shape(self):
        m = self.eat(kind="id")
        if m not in self.params: self.fail("shape() of something that is not a parameter")
        self.eat("."); self.eat("shape"); self.eat("("); self.eat(")")
        return (("field", m, "nrows"), ("field", m, "ncols"))
    def nat(self):
        k, v, ln = self.peek()
        if k == "num":
            self.eat(); return ("lit", v)
        if k == "id" and v in self.params:
            self.eat(); self.eat("."); f = self.eat(kind="id")
            if f not in ("nrows", "ncols"): self.fail("only the fields nrows / ncols are translated")
            return ("field", v, f)
        self.fail("expected m.nrows, m.ncols or a literal")


def parse_enum(src):
    text, line = extract_item(src, r"pub\s+enum\s+Broadcast\b", "enum Broadcast")
    body = text[text.index("{") + 1:text.rindex("}")]
    body = re.sub(r"//[^\n]*", "", body)
    variants = {}
    for item in [x.strip() for x in body.split(",") if x.strip()]:
        m = re.fullmatch(r"([A-Z][A-Za-z0-9]*)(?:\(\s*usize\s*\))?", item)
        if not m:
            raise Unsupported(f"enum Broadcast (line {line}): variant {item!r} outside the subset (fieldless or one usize)")
        variants[m.group(1)] = "(" in item
    return variants


def check_shape_fn(src_dir):
    src = open(os.path.join(src_dir, "linalg", "array", "matrix.rs")).read()
    text, line = extract_item(src, r"pub\s+fn\s+shape\s*\(\s*&self\s*\)\s*->\s*\[usize;\s*2\]", "Matrix::shape")
    body = re.sub(r"\s+", "", text[text.index("{") + 1:text.rindex("}")])
    if body != "[self.nrows,self.ncols]":
        raise Unsupported(f"matrix.rs line {line}: Matrix::shape is no longer `[self.nrows, self.ncols]`")


def nat_v(n):
    return n[1] if n[0] == "lit" else f"{n[1]}_{n[2]}"

def cond_v(c):
    if c[0] == "eq": return f"({nat_v(c[1])} =? {nat_v(c[2])})"
    op = "||" if c[0] == "or" else "&&"
    return f"({cond_v(c[1])} {op} {cond_v(c[2])})"

def bval_v(b):
    if b[0] == "var": return b[1]
    return f"(B{b[1]} {nat_v(b[2])})" if b[2] is not None else f"B{b[1]}"

def block_v(blk, params, ind):
    _, stmts, tail = blk
    pad = "  " * ind
    if stmts:
        s = stmts[0]
        rest = ("block", stmts[1:], tail)
        if s[0] == "assert":
            return f"{pad}if {cond_v(s[1])} then\n{block_v(rest, params, ind + 1)}\n{pad}else None (* assert! failed *)"
        _, x, y, args = s
        argv = " ".join(f"{a}_nrows {a}_ncols" for a in args)
        return (f"{pad}match calc_broadcast_shape_fuel fuel {argv} with\n{pad}| Some ({x}, {y}) =>\n"
                f"{block_v(rest, params, ind + 1)}\n{pad}| None => None\n{pad}end")
    if tail[0] == "pair":
        return f"{pad}Some ({bval_v(tail[1])}, {bval_v(tail[2])})"
    _, c, th, el = tail
    return f"{pad}if {cond_v(c)} then\n{block_v(th, params, ind + 1)}\n{pad}else\n{block_v(el, params, ind + 1)}"


def generate(src_dir):
    path = os.path.join(src_dir, "linalg", "array", "broadcast.rs")
    src = open(path).read()
    variants = parse_enum(src)
    check_shape_fn(src_dir)
    text, line = extract_item(src, r"pub\s*\(\s*crate\s*\)\s*fn\s+calc_broadcast_shape\b|pub\s+fn\s+calc_broadcast_shape\b|fn\s+calc_broadcast_shape\b", "fn calc_broadcast_shape")
    p = P(tokenize(text, line), "Broadcast", variants, "calc_broadcast_shape")
    body = p.function()
    params = p.params
    if len(params) != 2:
        raise Unsupported("calc_broadcast_shape no longer takes two matrices")
    ctors = " | ".join(f"B{n} (n : nat)" if has else f"B{n}" for n, has in variants.items())
    pv = " ".join(f"{m}_nrows {m}_ncols" for m in params)
    out = []
    out.append("(** GENERATED by tools/tiea/broadcast_classifier.py from src/linalg/array/broadcast.rs")
    out.append("    (enum Broadcast, fn calc_broadcast_shape) -- do not edit; rewritten on every ./check run.")
    out.append("    A Matrix parameter m is the pair of naturals m_nrows m_ncols; a failed assert! is None;")
    out.append("    the recursive operand swap consumes one unit of fuel (Proofs/C12.v: fuel 2 always suffices). *)")
    out.append("From Coq Require Import Arith Bool.")
    out.append("")
    out.append(f"Inductive Broadcast := {ctors}.")
    out.append("")
    out.append(f"Fixpoint calc_broadcast_shape_fuel (fuel : nat) ({pv} : nat) {{struct fuel}}")
    out.append("  : option (Broadcast * Broadcast) :=")
    out.append("  match fuel with")
    out.append("  | 0 => None")
    out.append("  | S fuel =>")
    out.append(block_v(body, params, 2))
    out.append("  end.")
    out.append("")
    out.append(f"Definition calc_broadcast_shape ({pv} : nat) := calc_broadcast_shape_fuel 2 {pv}.")
    out.append("")
    return "\n".join(out)


if __name__ == "__main__":
    import sys
    print(generate(sys.argv[1] if len(sys.argv) > 1 else "/repo/src"))
