"""Tie A for C05: `matmul`, `matmul_blocked`, `xtx` of src/linalg/utils.rs (with `is_matrix` and `transpose`, which they
call) translated statement for statement by the statement-level translator (LoopTranslator of tools/rsexpr.py) into
coq/theories/Generated/matmul_loops.v.  Proofs/TieA_matmul_loops.v proves each generated function equal to the hand-written
model of Model/MatMul.v (which works on ROWS: `unflatten` / `flatten` at the boundary, `map` / `map2` / `mapi` per row) for
every carrier and input; Properties/C05.v pins those equalities as C05_model_is_source_*.
The source accumulates IN PLACE into one flat zero vector (`c[i * n + j] += temp * b[k * n + j]`): rendered with rs_get /
rs_set on one flat list, index arithmetic in Z, a panic (`is_matrix(..).unwrap()` of `Err`, a zero `rows_*` or `bsize`,
`assert_eq!` of the inner dimensions, the capacity check of `vec![0.; m * n]`, an out-of-bounds index) = None.  The
`#[cfg(feature = "blas")]` block is not compiled in the verified build and is skipped; the `#[cfg(not(feature = "blas"))]`
block is the code.
Abstract parameter of the generated text: `matmul_` — the RECURSIVE call `matmul(b, a, rows_b, rows_a, false, false)` of the
both-transposed path (A^T.B^T = (B.A)^T).  The theorems instantiate it by the generated function itself applied to an
ARBITRARY `matmul_` (the inner call has both flags false and never reaches the recursive call), so nothing about the
recursion is assumed."""
import os, sys
sys.path.insert(0, os.path.join(os.path.dirname(os.path.abspath(__file__)), ".."))
import rsexpr
from rsexpr import Module, LoopTranslator, Config

LF = ("list", "f")
FNS = ["is_matrix", "transpose", "matmul_blocked", "matmul", "xtx"]


def generate(src_dir):
    rsexpr.selftest()
    cfg = Config(calls={"matmul": ("matmul_", [LF, LF, "i", "i", "b", "b"], ("opt", LF))}, param_types={"Vector": LF})
    tr = LoopTranslator(Module(os.path.join(src_dir, "linalg", "utils.rs")), cfg)
    out = [rsexpr.loops_header("tools/tiea/matmul_loops.py", ["linalg/utils.rs"], mut=True), ""]
    for fn in FNS:
        out.append(tr.function(None, fn, "src_" + fn).text)
    out += ["", "(* translator notes: " + ("; ".join(tr.notes) or "none") + " *)"]
    return "\n".join(out) + "\n"
