"""Tie A for C13: `acovf`, `acf`, `difference` (src/timeseries/functions.rs) and `AR::predict_one`, `AR::predict`
(src/timeseries/autoregressive.rs) translated statement for statement by the statement-level translator (LoopTranslator
of tools/rsexpr.py) into coq/theories/Generated/ts_loops.v.  Proofs/TieA_ts_loops.v proves each generated function equal
to the hand-written model (Model/TimeSeries.v) for every carrier and input; Properties/C13.v pins those equalities as
C13_model_is_source_*.  Slices and Vecs are lists, `usize` lives in Z (unsigned `a - b` = the release build's wrapping
rs_usub), a panic (out-of-bounds index or slice, capacity overflow) is None.  `statistics::mean` and `linalg::dot`
(other files) are the abstract parameters `mean_` and `dot_`; the theorems instantiate them by the models `ts_mean`
and `Reduce.dot`.  Of `struct AR` the fields `coeffs` and `intercept` are read.  `AR::fit` (calls `invert_matrix`,
`toeplitz`, `matmul`, mutates `self`) is outside the subset and stays tied by the correspondence only."""
import os, sys
sys.path.insert(0, os.path.join(os.path.dirname(os.path.abspath(__file__)), ".."))
import rsexpr
from rsexpr import Module, LoopTranslator, Config


def generate(src_dir):
    rsexpr.selftest()
    cfg = Config(calls={"mean": ("mean_", [("list", "f")], "f"),
                        "dot": ("dot_", [("list", "f"), ("list", "f")], ("opt", "f"))},
                 param_types={"Vector": ("list", "f")})
    out = [rsexpr.loops_header("tools/tiea/ts_loops.py", ["timeseries/functions.rs", "timeseries/autoregressive.rs"]), ""]
    tr = LoopTranslator(Module(os.path.join(src_dir, "timeseries", "functions.rs")), cfg)
    out.append("(* timeseries/functions.rs *)")
    for fn in ["acovf", "acf", "difference"]:
        out.append(tr.function(None, fn, "src_" + fn).text)
    notes = list(tr.notes)
    tr = LoopTranslator(Module(os.path.join(src_dir, "timeseries", "autoregressive.rs")), cfg)
    out += ["", "(* timeseries/autoregressive.rs: impl AR (fields read: coeffs, intercept) *)"]
    for fn in ["predict_one", "predict"]:
        out.append(tr.function("AR", fn, "src_" + fn, self_fields=["coeffs", "intercept"]).text)
    notes += [n for n in tr.notes if n not in notes]
    try:
        tr.function("AR", "fit", "src_fit", self_fields=["p", "coeffs", "intercept"])
    except rsexpr.Unsupported as ex:
        out += ["", f"(* `AR::fit` is outside the subset and is not translated: {str(ex).replace('*)', '* )')} *)"]
    else:
        raise rsexpr.Unsupported("autoregressive.rs: `AR::fit` used to be outside the translator's subset and now translates: add it to the target and prove its tie")
    out += ["", "(* translator notes: " + ("; ".join(notes) or "none") + " *)"]
    return "\n".join(out) + "\n"
