"""Tie A for C04: the reductions `sum`, `dot`, `prod`, `norm`, `logsumexp`, `logmeanexp` of src/linalg/utils.rs translated
statement for statement by the statement-level translator (LoopTranslator of tools/rsexpr.py) into
coq/theories/Generated/reduce_loops.v.  Proofs/TieA_reduce_loops.v proves each generated function equal to the
hand-written model (Model/Reduce.v, Model/Vops.v) for every carrier and every slice; Properties/C04.v pins those
equalities as C04_model_is_source_*.  The `#[cfg(feature = "blas")]` blocks are not compiled in the verified build
(no default features) and are not looked at; the `#[cfg(not(feature = "blas"))]` blocks are the function bodies.
Slices are lists, `usize` lives in Z, a panic (failed assert!, out-of-bounds index) is None.  `statistics::max`
(another file) is the abstract parameter `max_` of logsumexp / logmeanexp, instantiated by the model `vmax`."""
import os, sys
sys.path.insert(0, os.path.join(os.path.dirname(os.path.abspath(__file__)), ".."))
import rsexpr
from rsexpr import Module, LoopTranslator, Config

FNS = ["sum", "dot", "prod", "norm", "logsumexp", "logmeanexp"]


def generate(src_dir):
    rsexpr.selftest()
    cfg = Config(calls={"max": ("max_", [("list", "f")], "f")}, param_types={"Vector": ("list", "f")})
    out = [rsexpr.loops_header("tools/tiea/reduce_loops.py", ["linalg/utils.rs"]), ""]
    tr = LoopTranslator(Module(os.path.join(src_dir, "linalg", "utils.rs")), cfg)
    for fn in FNS:
        out.append(tr.function(None, fn, "src_" + fn).text)
    out += ["", "(* translator notes: " + ("; ".join(tr.notes) or "none") + " *)"]
    return "\n".join(out) + "\n"
