#!/usr/bin/env python3
"""Tie A translator: the macro wiring of the broadcasting operators
(src/linalg/array/{matrix,broadcast,vops}.rs) -> coq/theories/Generated/broadcast_wiring.v.

Translated (each as a table; anything that does not have exactly the expected form raises `Unsupported`):
  * `impl_mat_ops!` body rows `$macro_name!(Trait, method, broadcast_fn);`, its invocation list, the four
    `impl_*_helper!(.., SelfTy, OtherTy[, to_owned])` lines of each of `mat_mat_op!`, `mat_vec_op!`, `vec_mat_op!`,
    and the call `$innerfn(arg1, arg2)` in each helper's `fn $fn(self, other)` with
    arg := `&self` | `&other` | `&self$(.$to_owned())?.to_matrix()` | `&other$(.$to_owned())?.to_matrix()`;
    expanded to the 48 rows (trait, method, Self type, Other type, callee, arg1, arg2);
  * `broadcast_op!(tok, fnname, matmatfn);` rows; `makefn_matops!(fn, innerfn);` rows (+ the body's
    `$innerfn(&m1.data, &m2.data)` order); `mat_scalar_op!(Trait, method, vs, sv, $ty);` rows (+ the helper's
    `$fn_vs(&self.data, other)` / `$fn_sv(self, &other.data)` calls); `makefn_vops_binary!`, `makefn_vsops!`,
    `makefn_svops!` rows and the operand order of EVERY `$op` line of those three kernel macros;
  * the two scalar arms of `broadcast_op!` (`m1[0][0] $op m2`, `m1 $op m2[0][0]`) and its `$matmatfn(m1, m2)` call.
"""
import os, re

class Unsupported(Exception):
    pass

def strip_comments(s):
    return re.sub(r"//[^\n]*", "", s)

def macro_text(src, name, fname):
    m = re.search(r"macro_rules!\s+" + re.escape(name) + r"\s*\{", src)
    if not m:
        raise Unsupported(f"{fname}: macro_rules! {name} not found")
    i, depth = m.end() - 1, 0
    for j in range(i, len(src)):
        if src[j] == "{": depth += 1
        elif src[j] == "}":
            depth -= 1
            if depth == 0:
                return src[i + 1:j], src.count("\n", 0, m.start()) + 1
    raise Unsupported(f"{fname}: macro_rules! {name}: unbalanced braces")

def squash(s):
    return re.sub(r"\s+", "", s)

def single_rule(text, name, fname, line):
    """(pattern, body) of a macro with exactly one rule `(pattern) => { body };`"""
    t = text.strip()
    m = re.match(r"\((.*?)\)\s*=>\s*\{(.*)\}\s*;?\s*$", t, re.S)
    if not m or re.search(r"\}\s*;\s*\(", m.group(2)):
        raise Unsupported(f"{fname} line {line}: macro {name} does not have exactly one rule")
    return m.group(1), m.group(2)

def invocations(src, name, nargs, fname):
    """argument tuples of every top-level `name!(a, b, ..);` invocation in src (comments stripped)"""
    rows = []
    for m in re.finditer(r"(?<![A-Za-z0-9_$])" + re.escape(name) + r"!\s*\(([^()]*)\)\s*;", src):
        args = [a.strip() for a in m.group(1).split(",")]
        if len(args) != nargs:
            raise Unsupported(f"{fname}: {name}!({m.group(1)}) does not have {nargs} arguments")
        rows.append(args)
    if not rows:
        raise Unsupported(f"{fname}: no invocation of {name}! found")
    return rows

TOKS = {"+": "OpAdd", "-": "OpSub", "*": "OpMul", "/": "OpDiv"}
TRAITS = {"Add": "TrAdd", "Sub": "TrSub", "Mul": "TrMul", "Div": "TrDiv"}
TYPES = {"Matrix": "TyMatrix", "&Matrix": "TyRefMatrix", "Vector": "TyVector", "&Vector": "TyRefVector"}

def parse_arg(a, has_to_owned, where):
    m = re.fullmatch(r"&(self|other)((?:\$\(\.\$to_owned\(\)\)\?)?)((?:\.to_matrix\(\))?)", a)
    if not m:
        raise Unsupported(f"{where}: argument {a!r} outside the subset")
    if m.group(2) and not m.group(3):
        raise Unsupported(f"{where}: to_owned without to_matrix in {a!r}")
    return ("ArgSelf" if m.group(1) == "self" else "ArgOther", bool(m.group(2)) and has_to_owned, bool(m.group(3)))

def kernel_form(vops, macro, fname):
    """operand order of every `$op` line of a kernel macro: all lines must agree"""
    text, line = macro_text(vops, macro, fname)
    forms = set()
    n = 0
    for ln in text.splitlines():
        if not re.search(r"\$op\b", ln) or "#[doc" in ln or "stringify!" in ln or "=>" in ln:
            continue
        s = squash(ln)
        m = re.fullmatch(r"v\[(.+?)\]=(v1\[(.+?)\]|scalar)\$op(v1\[(.+?)\]|v2\[(.+?)\]|scalar);", s)
        if not m:
            raise Unsupported(f"{fname}: macro {macro}: `$op` line outside the subset: {ln.strip()!r}")
        idx = m.group(1)
        for g in (3, 5, 6):
            if m.group(g) is not None and m.group(g) != idx:
                raise Unsupported(f"{fname}: macro {macro}: index mismatch in {ln.strip()!r}")
        def side(t):
            return "Scalar" if t == "scalar" else "Elem1" if t.startswith("v1[") else "Elem2"
        forms.add((side(m.group(2)), side(m.group(4))))
        n += 1
    if len(forms) != 1 or n == 0:
        raise Unsupported(f"{fname}: macro {macro}: the `$op` lines do not all have the same operand order: {sorted(forms)}")
    return forms.pop()

def generate(src_dir):
    d = os.path.join(src_dir, "linalg", "array")
    matrix = strip_comments(open(os.path.join(d, "matrix.rs")).read())
    bcast = strip_comments(open(os.path.join(d, "broadcast.rs")).read())
    vops = strip_comments(open(os.path.join(d, "vops.rs")).read())

    # --- impl_mat_ops!: rows (Trait, method, broadcast fn) and the list of per-kind macros
    text, line = macro_text(matrix, "impl_mat_ops", "matrix.rs")
    pat, body = single_rule(text, "impl_mat_ops", "matrix.rs", line)
    if squash(pat) != "$($macro_name:ident),+":
        raise Unsupported(f"matrix.rs line {line}: impl_mat_ops pattern changed: {pat!r}")
    b = squash(body)
    m = re.fullmatch(r"\$\(((?:\$macro_name!\([A-Za-z_]+,[A-Za-z_]+,[A-Za-z_]+\);)+)\)\+", b)
    if not m:
        raise Unsupported(f"matrix.rs line {line}: impl_mat_ops body outside the subset")
    trait_rows = re.findall(r"\$macro_name!\(([A-Za-z_]+),([A-Za-z_]+),([A-Za-z_]+)\);", m.group(1))
    for t, meth, fn in trait_rows:
        if t not in TRAITS:
            raise Unsupported(f"matrix.rs line {line}: unknown operator trait {t}")
    inv = re.findall(r"(?<![A-Za-z0-9_$])impl_mat_ops!\s*\(([^()]*)\)\s*;", matrix)
    if len(inv) != 1:
        raise Unsupported("matrix.rs: expected exactly one impl_mat_ops!(..) invocation")
    kind_macros = [x.strip() for x in inv[0].split(",")]

    impl_rows = []
    for km in kind_macros:
        text, line = macro_text(matrix, km, "matrix.rs")
        pat, body = single_rule(text, km, "matrix.rs", line)
        if squash(pat) != "$op:ident,$fn:ident,$innerfn:ident":
            raise Unsupported(f"matrix.rs line {line}: {km} pattern changed")
        lines = [squash(x) for x in body.split(";") if x.strip()]
        helpers = []
        for l in lines:
            mm = re.fullmatch(r"([A-Za-z_]+)!\(\$op,\$fn,\$innerfn,(&?[A-Za-z]+),(&?[A-Za-z]+)(,to_owned)?\)", l)
            if not mm or mm.group(2) not in TYPES or mm.group(3) not in TYPES:
                raise Unsupported(f"matrix.rs line {line}: {km}: line outside the subset: {l!r}")
            helpers.append((mm.group(1), mm.group(2), mm.group(3), bool(mm.group(4))))
        for helper, selfty, otherty, has_to_owned in helpers:
            htext, hline = macro_text(matrix, helper, "matrix.rs")
            hpat, hbody = single_rule(htext, helper, "matrix.rs", hline)
            hp = squash(hpat)
            if hp not in ("$op:ident,$fn:ident,$innerfn:ident,$selftype:ty,$othertype:ty",
                          "$op:ident,$fn:ident,$innerfn:ident,$selftype:ty,$othertype:ty$(,$to_owned:ident)?"):
                raise Unsupported(f"matrix.rs line {hline}: {helper} pattern changed: {hpat!r}")
            if has_to_owned and "$to_owned" not in hp:
                raise Unsupported(f"matrix.rs line {hline}: {helper} invoked with to_owned but does not take it")
            hb = squash(hbody)
            mm = re.fullmatch(r"impl\$op<\$othertype>for\$selftype\{typeOutput=Matrix;fn\$fn\(self,other:\$othertype\)->Self::Output\{\$innerfn\((.+?),(.+?)\)\}\}", hb)
            if not mm:
                raise Unsupported(f"matrix.rs line {hline}: body of {helper} outside the subset")
            a1 = parse_arg(mm.group(1), has_to_owned, f"matrix.rs line {hline} ({helper})")
            a2 = parse_arg(mm.group(2), has_to_owned, f"matrix.rs line {hline} ({helper})")
            for t, meth, fn in trait_rows:
                impl_rows.append((TRAITS[t], meth, TYPES[selfty], TYPES[otherty], fn, a1, a2))

    # --- broadcast_op! rows and the parts of its body that are calls
    bops = invocations(bcast, "broadcast_op", 3, "broadcast.rs")
    for tok, fn, mm in bops:
        if tok not in TOKS:
            raise Unsupported(f"broadcast.rs: broadcast_op!({tok}, ..): unknown operator token")
    text, line = macro_text(bcast, "broadcast_op", "broadcast.rs")
    pat, body = single_rule(text, "broadcast_op", "broadcast.rs", line)
    if squash(pat) != "$op:tt,$fnname:ident,$matmatfn:ident":
        raise Unsupported(f"broadcast.rs line {line}: broadcast_op pattern changed")
    b = squash(body)
    if "pub(crate)fn$fnname(m1:&Matrix,m2:&Matrix)->Matrix{letb=calc_broadcast_shape(m1,m2);matchb{" not in b:
        raise Unsupported(f"broadcast.rs line {line}: broadcast_op no longer starts with `let b = calc_broadcast_shape(m1, m2); match b`")
    if b.count("$matmatfn(") != 1 or "$matmatfn(m1,m2)" not in b:
        raise Unsupported(f"broadcast.rs line {line}: the equal-shape arm no longer calls $matmatfn(m1, m2)")
    sc = re.findall(r"\[Broadcast::IsScalar,_\]=>\{assert!\(m1\.nrows==1&&m1\.ncols==1\);(.+?)\}", b)
    if sc != ["m1[0][0]$opm2"]:
        raise Unsupported(f"broadcast.rs line {line}: the [IsScalar, _] arm is no longer `m1[0][0] $op m2`: {sc}")
    sc = re.findall(r"\[_,Broadcast::IsScalar\]=>\{assert!\(m2\.nrows==1&&m2\.ncols==1\);(.+?)\}", b)
    if sc != ["m1$opm2[0][0]"]:
        raise Unsupported(f"broadcast.rs line {line}: the [_, IsScalar] arm is no longer `m1 $op m2[0][0]`: {sc}")

    # --- makefn_matops!
    mfns = invocations(matrix, "makefn_matops", 2, "matrix.rs")
    text, line = macro_text(matrix, "makefn_matops", "matrix.rs")
    pat, body = single_rule(text, "makefn_matops", "matrix.rs", line)
    b = squash(body)
    if not re.fullmatch(r'pubfn\$fn\(m1:&Matrix,m2:&Matrix\)->Matrix\{assert_eq!\(m1\.shape\(\),m2\.shape\(\),"[^"]*"\);Matrix::new\(\$innerfn\(&m1\.data,&m2\.data\),m1\.nrowsasi32,m1\.ncolsasi32,?\)\}', b):
        raise Unsupported(f"matrix.rs line {line}: body of makefn_matops outside the subset")

    # --- Matrix o scalar / scalar o Matrix
    text, line = macro_text(matrix, "mat_scalar_op_for", "matrix.rs")
    sops = invocations(text, "mat_scalar_op", 5, "matrix.rs")
    for t, meth, vs, sv, ty in sops:
        if t not in TRAITS or ty != "$ty":
            raise Unsupported(f"matrix.rs line {line}: mat_scalar_op!({t}, ..) outside the subset")
    if [x.strip() for x in re.findall(r"(?<![A-Za-z0-9_$])mat_scalar_op_for!\s*\(([^()]*)\)\s*;", matrix)] != ["f64"]:
        raise Unsupported("matrix.rs: expected exactly mat_scalar_op_for!(f64);")
    text, line = macro_text(matrix, "mat_scalar_op", "matrix.rs")
    pat, body = single_rule(text, "mat_scalar_op", "matrix.rs", line)
    if squash(body) != "impl_mat_scalar_op_for_type!($op,$fn,$fn_vs,$fn_sv,Matrix,$ty);impl_mat_scalar_op_for_type!($op,$fn,$fn_vs,$fn_sv,&Matrix,$ty);":
        raise Unsupported(f"matrix.rs line {line}: body of mat_scalar_op changed")
    text, line = macro_text(matrix, "impl_mat_scalar_op_for_type", "matrix.rs")
    pat, body = single_rule(text, "impl_mat_scalar_op_for_type", "matrix.rs", line)
    want = ("impl$op<$othertype>for$selftype{typeOutput=Matrix;fn$fn(self,other:$othertype)->Self::Output{"
            "Matrix::new($fn_vs(&self.data,other),self.nrowsasi32,self.ncolsasi32,)}}"
            "impl$op<$selftype>for$othertype{typeOutput=Matrix;fn$fn(self,other:$selftype)->Self::Output{"
            "Matrix::new($fn_sv(self,&other.data),other.nrowsasi32,other.ncolsasi32,)}}")
    if squash(body) != want:
        raise Unsupported(f"matrix.rs line {line}: body of impl_mat_scalar_op_for_type changed")

    # --- element kernels
    vv = invocations(vops, "makefn_vops_binary", 2, "vops.rs")
    vs = invocations(vops, "makefn_vsops", 2, "vops.rs")
    sv = invocations(vops, "makefn_svops", 2, "vops.rs")
    for rows in (vv, vs, sv):
        for fn, tok in rows:
            if tok not in TOKS:
                raise Unsupported(f"vops.rs: kernel {fn}: unknown operator token {tok}")
    forms = [(mac, kernel_form(vops, mac, "vops.rs")) for mac in ("makefn_vops_binary", "makefn_vsops", "makefn_svops")]

    def argv(a):
        return f"{{| a_base := {a[0]}; a_to_owned := {str(a[1]).lower()}; a_to_matrix := {str(a[2]).lower()} |}}"
    o = []
    o.append("(** GENERATED by tools/tiea/broadcast_wiring.py from src/linalg/array/{matrix,broadcast,vops}.rs")
    o.append("    (operator-impl macros of the broadcasting arithmetic) -- do not edit; rewritten on every ./check run. *)")
    o.append("From Coq Require Import List String Bool.")
    o.append("Import ListNotations.")
    o.append("Local Open Scope string_scope.")
    o.append("")
    o.append("Inductive optok := OpAdd | OpSub | OpMul | OpDiv.          (* the tokens + - * / *)")
    o.append("Inductive optrait := TrAdd | TrSub | TrMul | TrDiv.        (* std::ops::{Add, Sub, Mul, Div} *)")
    o.append("Inductive opty := TyMatrix | TyRefMatrix | TyVector | TyRefVector.")
    o.append("Inductive argbase := ArgSelf | ArgOther.")
    o.append("Inductive operand := Elem1 | Elem2 | Scalar.")
    o.append("(** an argument of the call in an impl body: [&base], optionally [.to_owned()], optionally [.to_matrix()] *)")
    o.append("Record argx := { a_base : argbase; a_to_owned : bool; a_to_matrix : bool }.")
    o.append("Record impl_row := { i_trait : optrait; i_method : string; i_self : opty; i_other : opty;")
    o.append("                     i_callee : string; i_arg1 : argx; i_arg2 : argx }.")
    o.append("")
    o.append("(** every `impl Trait<Other> for Self { fn method(self, other) { callee(arg1, arg2) } }` generated by impl_mat_ops! *)")
    o.append("Definition impl_rows : list impl_row := [")
    o.append(";\n".join(
        f"  {{| i_trait := {t}; i_method := \"{meth}\"; i_self := {s}; i_other := {ot}; i_callee := \"{fn}\";\n"
        f"     i_arg1 := {argv(a1)}; i_arg2 := {argv(a2)} |}}" for t, meth, s, ot, fn, a1, a2 in impl_rows))
    o.append("].")
    o.append("")
    o.append("(** broadcast_op!(token, fnname, matmatfn) *)")
    o.append("Definition broadcast_ops : list (optok * string * string) := [" + "; ".join(f"({TOKS[t]}, \"{f}\", \"{m}\")" for t, f, m in bops) + "].")
    o.append("(** makefn_matops!(fn, innerfn): fn(m1, m2) = Matrix::new(innerfn(&m1.data, &m2.data), ..) *)")
    o.append("Definition matmat_fns : list (string * string) := [" + "; ".join(f"(\"{f}\", \"{i}\")" for f, i in mfns) + "].")
    o.append("(** mat_scalar_op!(Trait, method, vs kernel, sv kernel): Matrix o f64 = vs(&self.data, other); f64 o Matrix = sv(self, &other.data) *)")
    o.append("Definition scalar_ops : list (optrait * string * string * string) := [" + "; ".join(f"({TRAITS[t]}, \"{m}\", \"{a}\", \"{b}\")" for t, m, a, b, _ in sops) + "].")
    o.append("(** element kernels: makefn_vops_binary!(name, token), makefn_vsops!(..), makefn_svops!(..) *)")
    o.append("Definition vv_kernels : list (string * optok) := [" + "; ".join(f"(\"{f}\", {TOKS[t]})" for f, t in vv) + "].")
    o.append("Definition vs_kernels : list (string * optok) := [" + "; ".join(f"(\"{f}\", {TOKS[t]})" for f, t in vs) + "].")
    o.append("Definition sv_kernels : list (string * optok) := [" + "; ".join(f"(\"{f}\", {TOKS[t]})" for f, t in sv) + "].")
    o.append("(** operand order `v[k] = left $op right` of every line of the three kernel macros *)")
    o.append("Definition kernel_forms : list (string * operand * operand) := [" + "; ".join(f"(\"{m}\", {l}, {r})" for m, (l, r) in forms) + "].")
    o.append("")
    return "\n".join(o)


if __name__ == "__main__":
    import sys
    print(generate(sys.argv[1] if len(sys.argv) > 1 else "/repo/src"))
