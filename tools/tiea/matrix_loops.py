"""Tie A for C15, the structural methods of `Matrix` (src/linalg/array/matrix.rs) beyond reshape: `Index<usize>::index`
(`self[i]`), `size`, `is_square`, `is_symmetric`, `is_upper_triangular`, `is_lower_triangular`, `diag`,
`get_row_as_vector`, `get_col_as_vector`, `flat_idx`, `flat_idx_replace`, `t`, `t_mut`, `to_vec`, `hcat`, `vcat`, `hrepeat`,
`vrepeat`, `eye`, translated statement for statement by the statement-level translator (LoopTranslator of
tools/rsexpr.py) into coq/theories/Generated/matrix_loops.v.  Proofs/TieA_matrix_loops.v proves each generated function
equal to the hand-written model of Model/Shape.v; Properties/C15.v pins those equalities as C15_model_is_source_*.
A method reads the fields (data, nrows, ncols) of `self`; a `&mut self` method is rendered as the fields after the call; a
Matrix VALUE (argument `other`, result, the local `m` of `eye`) is the triple (nrows, ncols, data) and a struct-typed
variable is kept as one variable per field.  `self[i]` is the translated `index`; `swap(&mut self.ncols, &mut self.nrows)`
exchanges the two variables.  Abstract parameters: `Matrix::new` (TryInto + match: outside the subset, refused in
shape_loops), `Self::zeros` (ends in Matrix::new), `transpose` (utils.rs: translated and tied in linalg_loops).
`apply_along_row` (`iter_mut().for_each(|x| *x = f(*x))`) and `apply_along_col` (`for row in self`: `chunks_mut`) are outside
the subset (checked refused here) and stay tied by the correspondence only."""
import os, sys
sys.path.insert(0, os.path.join(os.path.dirname(os.path.abspath(__file__)), ".."))
import rsexpr
from rsexpr import Module, LoopTranslator, Config

LF = ("list", "f")
MAT = ("struct", "Matrix")
VALUE = ["index", "size", "is_square", "is_symmetric", "is_upper_triangular", "is_lower_triangular", "diag", "get_row_as_vector",
         "get_col_as_vector", "flat_idx", "t", "to_vec", "hcat", "vcat", "hrepeat", "vrepeat", "eye"]
FIELDS = ["flat_idx_replace", "t_mut"]
REFUSED = ["apply_along_row", "apply_along_col", "new"]


def generate(src_dir):
    rsexpr.selftest()
    cfg = Config(calls={"Matrix::new": ("matrix_new_", [LF, "si", "si"], ("opt", MAT)),
                        "Self::zeros": ("matrix_zeros_", ["i", "i"], ("opt", MAT)),
                        "transpose": ("transpose_", [LF, "i"], ("opt", LF))},
                 param_types={"Vector": LF, "Self": MAT, "Matrix": MAT})
    cfg.struct_fields = {"Matrix": [("nrows", "i"), ("ncols", "i"), ("data", LF)]}
    tr = LoopTranslator(Module(os.path.join(src_dir, "linalg", "array", "matrix.rs")), cfg)
    out = [rsexpr.loops_header("tools/tiea/matrix_loops.py", ["linalg/array/matrix.rs"], mut=True), "",
           "(* impl Matrix: the fields data (Vector), nrows, ncols (usize) of `self` are the first three arguments; a Matrix value is (nrows, ncols, data) *)"]
    F = ["data", "nrows", "ncols"]
    for fn in VALUE:
        out.append(tr.function("Matrix", fn, "src_" + fn, self_fields=F).text)
    out.append("(* `&mut self` methods: the fields (data, nrows, ncols) after the call *)")
    for fn in FIELDS:
        out.append(tr.function("Matrix", fn, "src_" + fn, self_fields=F, result="fields").text)
    for fn in REFUSED:
        try:
            tr.function("Matrix", fn, "src_" + fn, self_fields=F, result=("value" if fn == "new" else "fields"))
        except rsexpr.Unsupported as ex:
            out += ["", f"(* `Matrix::{fn}` is outside the subset and is not translated: {str(ex).replace('*)', '* )')} *)"]
        else:
            raise rsexpr.Unsupported(f"matrix.rs: `Matrix::{fn}` used to be outside the translator's subset and now translates: add it to the target and prove its tie")
    out += ["", "(* translator notes: " + ("; ".join(tr.notes) or "none") + " *)"]
    return "\n".join(out) + "\n"
