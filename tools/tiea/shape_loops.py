"""Tie A for C15: the dimension logic of `Matrix::size`, `Matrix::reshape_mut` and `Matrix::reshape`
(src/linalg/array/matrix.rs) translated statement for statement by the statement-level translator (LoopTranslator of
tools/rsexpr.py) into coq/theories/Generated/shape_loops.v.  Proofs/TieA_shape_loops.v proves each generated function
equal to the hand-written model (Model/Shape.v: `size`, `reshape_dims`, `reshape`) for every input; Properties/C15.v pins
those equalities as C15_model_is_source_*.  `reshape_mut` is a `&mut self` method: the generated function returns the
fields (nrows, ncols) after the call (the data is not touched), None where an assert! / panic! / zero divisor stops it.
`i32` and `usize` live in Z (no wrap-around).  `reshape` ends in `Matrix::new(..)`, the abstract parameter `matrix_new_`
(`Matrix::new` itself converts its arguments with `TryInto` through a `match`: outside the subset, checked refused here)."""
import os, sys
sys.path.insert(0, os.path.join(os.path.dirname(os.path.abspath(__file__)), ".."))
import rsexpr
from rsexpr import Module, LoopTranslator, Config

MAT = ("tup", ("i", "i", ("list", "f")))


def generate(src_dir):
    rsexpr.selftest()
    cfg = Config(calls={"Matrix::new": ("matrix_new_", [("list", "f"), "si", "si"], ("opt", MAT))},
                 param_types={"Vector": ("list", "f"), "Self": MAT})
    tr = LoopTranslator(Module(os.path.join(src_dir, "linalg", "array", "matrix.rs")), cfg)
    out = [rsexpr.loops_header("tools/tiea/shape_loops.py", ["linalg/array/matrix.rs"]), "",
           "(* impl Matrix: fields nrows, ncols (usize), data (Vector); a Matrix value is (nrows, ncols, data) *)"]
    out.append(tr.function("Matrix", "size", "src_size", self_fields=["nrows", "ncols"]).text)
    out.append("(* the fields (nrows, ncols) after `reshape_mut(nrows', ncols')` *)")
    out.append(tr.function("Matrix", "reshape_mut", "src_reshape_mut", self_fields=["nrows", "ncols"], result="fields").text)
    out.append(tr.function("Matrix", "reshape", "src_reshape", self_fields=["data", "nrows", "ncols"]).text)
    try:
        tr.function("Matrix", "new", "src_new", self_fields=[])
    except rsexpr.Unsupported as ex:
        out += ["", f"(* `Matrix::new` is outside the subset and is not translated: {str(ex).replace('*)', '* )')} *)"]
    else:
        raise rsexpr.Unsupported("matrix.rs: `Matrix::new` used to be outside the translator's subset and now translates: add it to the target and prove its tie")
    out += ["", "(* translator notes: " + ("; ".join(tr.notes) or "none") + " *)"]
    return "\n".join(out) + "\n"
