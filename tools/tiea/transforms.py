"""Tie A for C17: `logistic`, `logit`, `boxcox`, `boxcox_shifted` of src/functions/statistical.rs translated operation
for operation by the expression translator tools/rsexpr.py into coq/theories/Generated/transforms.v.
Proofs/TieA_transforms.v proves each generated term equal to the hand-written model (Model/Transforms.v) for every
carrier; Properties/C17.v pins those equalities as C17_model_is_source_*.  A panic (`panic!`, failed `assert!`) is None.
`softmax` (a fold over a slice) is outside the translator's subset and stays tied by the correspondence only."""
import os, sys
sys.path.insert(0, os.path.join(os.path.dirname(os.path.abspath(__file__)), ".."))
import rsexpr
from rsexpr import Module, Translator, Config

FNS = ["logistic", "logit", "boxcox", "boxcox_shifted"]


def generate(src_dir):
    rsexpr.selftest()      # the translator checks itself first (precedence, literal rule, refusals)
    m = Module(os.path.join(src_dir, "functions", "statistical.rs"))
    tr = Translator(m, Config())
    out = [rsexpr.header("tools/tiea/transforms.py", ["functions/statistical.rs"]), ""]
    for fn in FNS:
        out.append(tr.function(None, fn, "src_" + fn).text)
    out.append("")
    out.append("(* translator notes: " + ("; ".join(tr.notes) or "none") + " *)")
    return "\n".join(out) + "\n"
