"""Tie A for C10: `rel_change` of src/optimize/mod.rs (the convergence measure shared by Adam and SGD) translated operation for
operation by the expression translator tools/rsexpr.py into coq/theories/Generated/optim_helpers.v.  Proofs/TieA_optim_helpers.v
proves the generated term equal to the hand-written model (Model/Optim.v `rel_change`) for every carrier; Properties/C10.v pins the
equality as C10_model_is_source_rel_change."""
import os, sys
sys.path.insert(0, os.path.join(os.path.dirname(os.path.abspath(__file__)), ".."))
import rsexpr
from rsexpr import Module, Translator, Config

FNS = ["rel_change"]


def generate(src_dir):
    rsexpr.selftest()
    m = Module(os.path.join(src_dir, "optimize", "mod.rs"))
    tr = Translator(m, Config())
    out = [rsexpr.header("tools/tiea/optim_helpers.py", ["optimize/mod.rs"]), ""]
    for fn in FNS:
        out.append(tr.function(None, fn, "src_" + fn).text)
    out.append("")
    out.append("(* translator notes: " + ("; ".join(tr.notes) or "none") + " *)")
    return "\n".join(out) + "\n"
