"""Tie A for C16: the bracketing scan of `interp1d_linear_unchecked` (src/functions/interpolate.rs),
`let mut idx = 0; for j in 0..n - 1 { if x[j] > tgt[i] { break; } idx += 1; }`, translated statement for statement by
the statement-level translator (LoopTranslator.fragment of tools/rsexpr.py) into coq/theories/Generated/interp_loops.v.
tools/tiea/interp_dispatch.py only pattern-checks these two statements and leaves them to the hand-written `scan` of
Model/Interp.v; Proofs/TieA_interp_loops.v proves the generated loop (a fold with `break`, checked reads, the wrapped
`n - 1`) equal to `scan` for every carrier, abscissae and target; Properties/C16.v pins it as C16_model_is_source_scan*.
The rest of the function (the `match extrapolate` dispatch) is interp_dispatch.py's; the whole function is outside this
translator's subset (enum parameter, `match`), which is checked here."""
import os, sys
sys.path.insert(0, os.path.join(os.path.dirname(os.path.abspath(__file__)), ".."))
import rsexpr
from rsexpr import Module, LoopTranslator, Config


def generate(src_dir):
    rsexpr.selftest()
    tr = LoopTranslator(Module(os.path.join(src_dir, "functions", "interpolate.rs")), Config(param_types={"Vector": ("list", "f")}))
    out = [rsexpr.loops_header("tools/tiea/interp_loops.py", ["functions/interpolate.rs"]), ""]
    out.append(tr.fragment(None, "interp1d_linear_unchecked", "src_scan", "let mut idx = 0;", 2,
                           [("x", ("list", "f")), ("tgt", ("list", "f")), ("i", "i"), ("n", "i")], "idx").text)
    try:
        tr.function(None, "interp1d_linear_unchecked", "src_interp1d_linear_unchecked")
    except rsexpr.Unsupported as ex:
        out += ["", f"(* the whole of `interp1d_linear_unchecked` is outside the subset: {str(ex).replace('*)', '* )')} *)"]
    else:
        raise rsexpr.Unsupported("interpolate.rs: `interp1d_linear_unchecked` now translates as a whole: add it to the target and prove its tie")
    out += ["", "(* translator notes: " + ("; ".join(tr.notes) or "none") + " *)"]
    return "\n".join(out) + "\n"
