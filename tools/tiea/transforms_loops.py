"""Tie A for C17: `softmax` of src/functions/statistical.rs (folds and maps over a slice) translated statement for
statement by the statement-level translator (LoopTranslator of tools/rsexpr.py) into
coq/theories/Generated/transforms_loops.v.  Proofs/TieA_transforms_loops.v proves the generated function equal to the
hand-written model (Model/Transforms.v) on every carrier on which -inf is neutral for f64::max (the model represents the
fold's seed f64::NEG_INFINITY by "nothing seen yet"); binary64 is such a carrier.  Pinned as C17_model_is_source_softmax*."""
import os, sys
sys.path.insert(0, os.path.join(os.path.dirname(os.path.abspath(__file__)), ".."))
import rsexpr
from rsexpr import Module, LoopTranslator, Config


def generate(src_dir):
    rsexpr.selftest()
    tr = LoopTranslator(Module(os.path.join(src_dir, "functions", "statistical.rs")), Config())
    out = [rsexpr.loops_header("tools/tiea/transforms_loops.py", ["functions/statistical.rs"]), ""]
    out.append(tr.function(None, "softmax", "src_softmax").text)
    out += ["", "(* translator notes: " + ("; ".join(tr.notes) or "none") + " *)"]
    return "\n".join(out) + "\n"
