"""Tie A for C03: the inverse-CDF samplers' formulas (`sample` of Uniform, Exponential, Gumbel, Pareto, Bernoulli in
src/distributions/*.rs) and `ln_gamma` (src/functions/gamma.rs, used by the Poisson sampler), translated operation for
operation by the expression translator tools/rsexpr.py into coq/theories/Generated/samplers.v.
Proofs/TieA_samplers.v proves them equal to the formulas inside Model/Samplers.v for every carrier and every random
source; Properties/C03.v pins those equalities as C03_model_is_source_*.

Randomness is abstract: `alea::f64()` in Uniform::sample is a parameter U; the rejection loop
`let u = loop { let u = <draw>; if u > 0. { break u; } };` makes the accepted draw a parameter of the formula and its
condition a definition `<Law>_sample_accept`.  The draws allowed are `alea::f64()` and the cached Uniform(0,1)
sub-samplers `self.rng.sample()` / `self.uniform_gen.sample()` (what they are constructed with is C18's Tie A)."""
import os, sys
sys.path.insert(0, os.path.join(os.path.dirname(os.path.abspath(__file__)), ".."))
import rsexpr
from rsexpr import Module, Translator, Config, Unsupported

LAWS = [("uniform", "Uniform"), ("exponential", "Exponential"), ("gumbel", "Gumbel"), ("pareto", "Pareto"), ("bernoulli", "Bernoulli")]
DRAWS = ["alea::f64()", "self.rng.sample()", "self.uniform_gen.sample()"]


def generate(src_dir):
    rsexpr.selftest()      # the translator checks itself first (precedence, literal rule, refusals)
    d = os.path.join(src_dir, "distributions")
    out = [rsexpr.header("tools/tiea/samplers.py", ["distributions/" + f + ".rs" for f, _ in LAWS] + ["functions/gamma.rs"]),
           "From Compute Require Import Generated.special_consts.", ""]
    notes = []
    for f, st in LAWS:
        m = Module(os.path.join(d, f + ".rs"))
        tr = Translator(m, Config(calls={"alea::f64": ("U", [], "f")}, draws=DRAWS))
        out.append(tr.function(st, "sample", f"{st}_sample").text)
        notes += [n for n in tr.notes if n not in notes]
    g = Module(os.path.join(src_dir, "functions", "gamma.rs"))
    if "G" not in g.consts: raise Unsupported("gamma.rs: constant `G` (mapped to lanczos_G of Generated/special_consts.v) is no longer defined")
    tg = Translator(g, Config(calls={"ln_gamma": ("LnGam", ["f"], "f")}, consts={"G": "ofLit O lanczos_G"},
                              arrays={"GAMMA_COEFFS": ("lanczos_coeffs", "Q * float", "ofLit O {v}")}))
    out.append(tg.function(None, "ln_gamma", "src_ln_gamma").text)
    out.append("")
    out.append("(* translator notes: " + ("; ".join(notes + tg.notes) or "none") + " *)")
    return "\n".join(out) + "\n"
