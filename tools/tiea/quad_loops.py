"""Tie A for C07: `trapz`, `quad5` (src/integrate/functions.rs) and `trapezoid` (src/integrate/samples.rs) translated
statement for statement by the statement-level translator (LoopTranslator of tools/rsexpr.py) into
coq/theories/Generated/quad_loops.v.  Proofs/TieA_quad_loops.v proves each generated function equal to the hand-written
model (Model/Quad.v) for every carrier, integrand and input; Properties/C07.v pins those equalities as
C07_model_is_source_*.  The integrand is a function argument, the Gauss-Legendre tables are those of
Generated/quad_tables.v (each literal as `ofLit O (exact rational, binary64)`), `usize` lives in Z, a panic is None.
`romberg` works on a `Matrix` tableau with two-dimensional indexing: outside the translator's subset, it is REFUSED
(checked here on every run) and stays tied by the correspondence only."""
import os, sys
sys.path.insert(0, os.path.join(os.path.dirname(os.path.abspath(__file__)), ".."))
import rsexpr
from rsexpr import Module, LoopTranslator, Config

FILES = [("integrate/functions.rs", ["trapz", "quad5"]), ("integrate/samples.rs", ["trapezoid"])]
REFUSED = [("integrate/functions.rs", "romberg", "Matrix::zeros")]


def generate(src_dir):
    rsexpr.selftest()
    cfg = Config(param_types={"Vector": ("list", "f")},
                 arrays={"GAUSS_QUAD_NODES": ("gauss_nodes", "(Q * float)", "ofLit O {v}"),
                         "GAUSS_QUAD_WEIGHTS": ("gauss_weights", "(Q * float)", "ofLit O {v}")})
    out = [rsexpr.loops_header("tools/tiea/quad_loops.py", [f for f, _ in FILES]) + "From Compute Require Import Generated.quad_tables.\n", ""]
    notes = []
    for f, fns in FILES:
        tr = LoopTranslator(Module(os.path.join(src_dir, f)), cfg)
        out.append(f"(* {f} *)")
        for fn in fns:
            out.append(tr.function(None, fn, "src_" + fn).text)
        notes += [n for n in tr.notes if n not in notes]
        out.append("")
    for f, fn, frag in REFUSED:
        try:
            LoopTranslator(Module(os.path.join(src_dir, f)), cfg).function(None, fn, "src_" + fn)
        except rsexpr.Unsupported as ex:
            out.append(f"(* `{fn}` is outside the subset and is not translated: {str(ex).replace('*)', '* )')} *)")
            continue
        raise rsexpr.Unsupported(f"{f}: `{fn}` used to be outside the translator's subset and now translates: add it to the target and prove its tie")
    out.append("(* translator notes: " + ("; ".join(notes) or "none") + " *)")
    return "\n".join(out) + "\n"
