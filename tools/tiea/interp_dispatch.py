#!/usr/bin/env python3
"""Tie A translator for C16: the per-target dispatch of `interp1d_linear_unchecked`
(src/functions/interpolate.rs) -> coq/theories/Generated/interp_dispatch.v.

What is regenerated: everything the loop over the targets does AFTER the bracketing scan, i.e. the
`above` test, the test `idx == 0 || above`, the `match extrapolate` with its three arms and the
convex-combination formula, as one Gallina function `target_step` over `Ops T` returning
`Push v` (one value appended), `Abort` (panic) or `Skip` (no value appended: the path falls through).

What is only pattern-checked (exact token sequence, anything else raises): the enum ExtrapolationMode, the
prelude (`assert_eq!(x.len(), y.len(), ..)`, `let n = x.len();`, `let k = tgt.len();`, the result vector),
the loop header and the scan `let mut idx = 0; for j in 0..n - 1 { if x[j] > tgt[i] { break; } idx += 1; }`
(hand-modelled as `scan` in Model/Interp.v), and that the checked variant ends by calling the unchecked one.

Subset of the dispatch (anything else raises Unsupported with the line):
  block := stmt* ; a `push`, `panic!`, `if` or `match` must be the last statement of its block
  stmt  := `let NAME = fexpr|cond ;` | `interp.push(fexpr);` | `panic!(..)[;]`
         | `if cond block (else if cond block)* [else block]`
         | `match extrapolate { ExtrapolationMode::V[(a, b)] => block|panic!(..) [,] ... }`
  cond  := cond `||` cond | `(` cond `)` | nat `==` nat | nat `>` nat | nat `<` nat | fexpr `>` fexpr
         | fexpr `<` fexpr | a let-bound boolean
  fexpr := f64 arithmetic (+ - * / unary -) over `0.`/`1.`, let-bound / pattern-bound names, `tgt[i]`,
           `x[nat]`, `y[nat]`
  nat   := `n` | `idx` | integer literal | nat + nat | nat - nat
Every slice access `x[e]` / `y[e]` is translated with its bounds check (`e < n`, and `b <= a` for every
usize subtraction `a - b` inside e: underflow panics in debug and indexes far out of bounds in release);
a failed check is `Abort`.  Both slices have length n (the `assert_eq!` is pattern-checked).
"""
import os, re


class Unsupported(Exception):
    pass


TOK = re.compile(r"""\s*(?:
    (//[^\n]*|/\*.*?\*/)                        # 1 comment
  | ("(?:[^"\\]|\\.)*")                          # 2 string
  | ([A-Za-z_][A-Za-z0-9_]*(?:::[A-Za-z_][A-Za-z0-9_]*)*!?)  # 3 identifier / path / macro
  | (\d+\.\d*|\d+)                               # 4 number
  | (=>|==|\|\||&&|\.\.|\+=|[()\[\]{},;.=<>!+\-*/&])   # 5 punctuation
)""", re.X | re.S)


def tokenize(src):
    toks, i = [], 0
    while i < len(src):
        m = TOK.match(src, i)
        if not m:
            if src[i:].strip() == "":
                break
            raise Unsupported(f"line {1 + src.count(chr(10), 0, i)}: cannot tokenize {src[i:i + 30]!r}")
        ln = 1 + src.count("\n", 0, m.end() - 1)
        if m.group(2): toks.append(("str", m.group(2), ln))
        elif m.group(3): toks.append(("id", m.group(3), ln))
        elif m.group(4): toks.append(("num", m.group(4), ln))
        elif m.group(5): toks.append(("p", m.group(5), ln))
        i = m.end()
    return toks


def words(text):
    return [t[1] for t in tokenize(text)]


class Parser:
    def __init__(self, toks):
        self.t, self.i = toks, 0
        self.fvars, self.bvars = set(), set()   # let-bound f64 / bool names in scope

    def peek(self, k=0):
        return self.t[self.i + k][1] if self.i + k < len(self.t) else None

    def line(self):
        return self.t[min(self.i, len(self.t) - 1)][2]

    def fail(self, msg):
        raise Unsupported(f"interpolate.rs line {self.line()}: {msg} (at `{' '.join(x[1] for x in self.t[self.i:self.i + 8])}`)")

    def eat(self, *ws):
        for w in ws:
            if self.peek() != w:
                self.fail(f"expected `{w}`")
            self.i += 1

    def eat_seq(self, text, what):
        for w in words(text):
            if self.peek() != w:
                self.fail(f"{what}: expected `{w}`; the code is no longer the one modelled")
            self.i += 1

    # ---- nat (usize) expressions ------------------------------------------------------------
    def nat_atom(self):
        k, w, _ = self.t[self.i]
        if k == "num" and re.fullmatch(r"\d+", w): self.i += 1; return ("lit", int(w))
        if w in ("n", "idx"): self.i += 1; return ("var", w)
        if w == "(":
            self.i += 1; e = self.nat(); self.eat(")"); return e
        self.fail("index expression outside the subset (n, idx, integer, +, -)")

    def nat(self):
        e = self.nat_atom()
        while self.peek() in ("+", "-"):
            op = self.peek(); self.i += 1
            e = (op, e, self.nat_atom())
        return e

    def is_nat_start(self):
        k, w, _ = self.t[self.i]
        return (k == "num" and re.fullmatch(r"\d+", w)) or w in ("n", "idx")

    # ---- f64 expressions --------------------------------------------------------------------
    def f_atom(self):
        k, w, _ = self.t[self.i]
        if w == "(":
            self.i += 1; e = self.fexpr(); self.eat(")"); return e
        if w == "-":
            self.i += 1; return ("neg", self.f_atom())
        if k == "num":
            if w == "1.": self.i += 1; return ("one",)
            if w == "0.": self.i += 1; return ("zero",)
            self.fail(f"f64 literal {w} outside the subset (0. and 1.)")
        if w == "tgt":
            self.eat("tgt", "[", "i", "]"); return ("tgt",)
        if w in ("x", "y"):
            self.i += 1; self.eat("["); e = self.nat(); self.eat("]"); return ("idx", w, e)
        if k == "id" and w in self.fvars:
            self.i += 1; return ("fvar", w)
        self.fail("f64 expression outside the subset")

    def f_term(self):
        e = self.f_atom()
        while self.peek() in ("*", "/"):
            op = self.peek(); self.i += 1
            e = (op, e, self.f_atom())
        return e

    def fexpr(self):
        e = self.f_term()
        while self.peek() in ("+", "-"):
            op = self.peek(); self.i += 1
            e = (op, e, self.f_term())
        return e

    # ---- conditions -------------------------------------------------------------------------
    def cond_atom(self):
        k, w, _ = self.t[self.i]
        if k == "id" and w in self.bvars:
            self.i += 1; return ("bvar", w)
        if w == "(":
            save = self.i
            try:
                self.i += 1; c = self.cond(); self.eat(")"); return c
            except Unsupported:
                self.i = save
        if self.is_nat_start():
            a = self.nat(); op = self.peek()
            if op not in ("==", ">", "<"): self.fail("usize comparison outside the subset (==, >, <)")
            self.i += 1; b = self.nat(); return ("ncmp", op, a, b)
        a = self.fexpr(); op = self.peek()
        if op not in (">", "<"): self.fail("f64 comparison outside the subset (>, <)")
        self.i += 1; b = self.fexpr(); return ("fcmp", op, a, b)

    def cond(self):
        c = self.cond_atom()
        while self.peek() == "||":
            self.i += 1; c = ("or", c, self.cond_atom())
        return c

    # ---- statements -------------------------------------------------------------------------
    def skip_macro_args(self):
        self.eat("(")
        depth = 1
        while depth:
            w = self.peek()
            if w is None: self.fail("unbalanced macro call")
            depth += w == "("; depth -= w == ")"; self.i += 1

    def block(self):
        self.eat("{"); b = self.stmts(); self.eat("}"); return b

    def stmts(self):
        """statements up to the closing brace (not consumed)"""
        out = []
        while self.peek() != "}":
            if out and out[-1][0] in ("push", "abort", "if", "match"):
                self.fail("a statement follows a push / panic! / if / match in the same block (outside the subset)")
            w = self.peek()
            if w == "let":
                self.i += 1
                k, name, _ = self.t[self.i]
                if k != "id" or name in ("n", "idx", "x", "y", "tgt", "i", "mut"): self.fail("let pattern outside the subset")
                self.i += 1; self.eat("=")
                save = self.i
                try:
                    e = self.cond(); self.eat(";"); kind = "b"
                except Unsupported:
                    self.i = save; e = self.fexpr(); self.eat(";"); kind = "f"
                (self.bvars if kind == "b" else self.fvars).add(name)
                out.append(("let", kind, name, e))
            elif w == "interp":
                self.eat("interp", ".", "push", "("); e = self.fexpr(); self.eat(")", ";")
                out.append(("push", e))
            elif w == "panic!":
                self.i += 1; self.skip_macro_args()
                if self.peek() == ";": self.i += 1
                out.append(("abort",))
            elif w == "if":
                out.append(self.if_stmt())
            elif w == "match":
                out.append(self.match_stmt())
            else:
                self.fail("statement outside the subset")
        return out

    def scoped_block(self):
        fv, bv = set(self.fvars), set(self.bvars)
        b = self.block()
        self.fvars, self.bvars = fv, bv
        return b

    def if_stmt(self):
        self.eat("if"); c = self.cond(); th = self.scoped_block()
        if self.peek() == "else":
            self.i += 1
            el = [self.if_stmt()] if self.peek() == "if" else self.scoped_block()
        else:
            el = []
        return ("if", c, th, el)

    def match_stmt(self):
        self.eat("match", "extrapolate", "{")
        arms = []
        while self.peek() != "}":
            k, path, _ = self.t[self.i]
            if k != "id" or not path.startswith("ExtrapolationMode::"): self.fail("match arm pattern outside the subset")
            self.i += 1
            binders = []
            if self.peek() == "(":
                self.i += 1
                while self.peek() != ")":
                    kk, b, _ = self.t[self.i]
                    if kk != "id": self.fail("pattern binder")
                    binders.append(b); self.i += 1
                    if self.peek() == ",": self.i += 1
                self.i += 1
            self.eat("=>")
            fv = set(self.fvars); self.fvars |= set(binders)
            if self.peek() == "panic!":
                self.i += 1; self.skip_macro_args(); body = [("abort",)]
            else:
                body = self.block()
            self.fvars = fv
            if self.peek() == ",": self.i += 1
            arms.append((path.split("::")[1], binders, body))
        self.eat("}")
        return ("match", arms)


# ---- emission ---------------------------------------------------------------------------------
def nat_v(e):
    if e[0] == "lit": return str(e[1])
    if e[0] == "var": return e[1]
    return f"({nat_v(e[1])} {e[0]} {nat_v(e[2])})"

def nat_guards(e, acc):
    if e[0] in ("+", "-"):
        nat_guards(e[1], acc); nat_guards(e[2], acc)
        g = f"({nat_v(e[2])} <=? {nat_v(e[1])})"
        if e[0] == "-" and g not in acc: acc.append(g)

def f_v(e):
    k = e[0]
    if k == "one": return "one O"
    if k == "zero": return "zero O"
    if k == "tgt": return "tgt_i"
    if k == "fvar": return "v_" + e[1]
    if k == "neg": return f"neg O ({f_v(e[1])})"
    if k == "idx": return f"nth {nat_v(e[2])} {e[1]} (zero O)"
    op = {"+": "add", "-": "sub", "*": "mul", "/": "div"}[k]
    return f"{op} O ({f_v(e[1])}) ({f_v(e[2])})"

def f_guards(e, acc):
    k = e[0]
    if k == "idx":
        nat_guards(e[2], acc)
        g = f"({nat_v(e[2])} <? n)"
        if g not in acc: acc.append(g)
    elif k == "neg": f_guards(e[1], acc)
    elif k in ("+", "-", "*", "/"): f_guards(e[1], acc); f_guards(e[2], acc)

def c_v(c):
    k = c[0]
    if k == "bvar": return "v_" + c[1]
    if k == "or": return f"({c_v(c[1])} || {c_v(c[2])})"
    if k == "ncmp":
        a, b = nat_v(c[2]), nat_v(c[3])
        return {"==": f"({a} =? {b})", ">": f"({b} <? {a})", "<": f"({a} <? {b})"}[c[1]]
    a, b = f_v(c[2]), f_v(c[3])
    return f"ltb O ({b}) ({a})" if c[1] == ">" else f"ltb O ({a}) ({b})"

def c_guards(c, acc):
    k = c[0]
    if k == "or": c_guards(c[1], acc); c_guards(c[2], acc)   # `||` short-circuits; see generate() for the restriction
    elif k == "ncmp": nat_guards(c[2], acc); nat_guards(c[3], acc)
    elif k == "fcmp": f_guards(c[2], acc); f_guards(c[3], acc)

def guarded(gs, body, ind):
    if not gs: return body
    return f"if {' && '.join(gs)} then\n{ind}  {body}\n{ind}else Abort"

def emit(stmts, ind):
    if not stmts: return "Skip"
    s, rest = stmts[0], stmts[1:]
    k = s[0]
    if k == "let":
        gs = []
        (c_guards if s[1] == "b" else f_guards)(s[3], gs)
        v = c_v(s[3]) if s[1] == "b" else f_v(s[3])
        return guarded(gs, f"let v_{s[2]} := {v} in\n{ind}  {emit(rest, ind + '  ')}", ind)
    if k == "push":
        gs = []; f_guards(s[1], gs)
        return guarded(gs, f"Push ({f_v(s[1])})", ind)
    if k == "abort":
        return "Abort"
    if k == "if":
        gs = []; c_guards(s[1], gs)
        if s[1][0] == "or" and gs:
            raise Unsupported("a slice access inside a short-circuit `||` condition is outside the subset")
        body = (f"if {c_v(s[1])} then\n{ind}  {emit(s[2], ind + '  ')}\n{ind}else\n{ind}  {emit(s[3], ind + '  ')}")
        return guarded(gs, body, ind)
    if k == "match":
        lines = ["match extrapolate with"]
        for name, binders, body in s[1]:
            lines.append(f"{ind}| X{name}{''.join(' v_' + b for b in binders)} =>\n{ind}    {emit(body, ind + '    ')}")
        lines.append(f"{ind}end")
        return "\n".join(lines)
    raise Unsupported("internal: statement kind " + k)


def fn_body(src, name):
    m = re.search(r"pub fn %s\s*\(" % name, src)
    if not m: raise Unsupported(f"fn {name} not found")
    i = src.index("{", src.index("-> Vector", m.start()))
    depth, j = 0, i
    while j < len(src):
        if src.startswith("//", j): j = src.index("\n", j); continue
        if src.startswith("/*", j): j = src.index("*/", j) + 2; continue
        if src[j] == '"':
            j += 1
            while src[j] != '"': j += 2 if src[j] == "\\" else 1
        elif src[j] == "{": depth += 1
        elif src[j] == "}":
            depth -= 1
            if depth == 0: return src[i + 1:j], src.count("\n", 0, i)
        j += 1
    raise Unsupported(f"fn {name}: unbalanced braces")


def generate(src_dir):
    path = os.path.join(src_dir, "functions", "interpolate.rs")
    src = open(path).read()
    # the enum
    m = re.search(r"pub enum ExtrapolationMode\s*\{(.*?)\}", src, re.S)
    if not m or words(m.group(1)) != words("Panic, Fill(f64, f64), Extrapolate,"):
        raise Unsupported("enum ExtrapolationMode is not {Panic, Fill(f64, f64), Extrapolate}")
    # the checked variant: length assert, n, the sortedness loop, the tail call
    cb, _ = fn_body(src, "interp1d_linear")
    want = words("""assert_eq!(x.len(), y.len(), "x and y must have the same size"); let n = x.len();
        for i in 0..n - 1 { if x[i + 1] - x[i] < 0. { panic!("x must be sorted in ascending order"); } }
        interp1d_linear_unchecked(x, y, tgt, extrapolate)""")
    got = [w for w in words(cb)]
    strip = lambda ws: [w for w in ws if not w.startswith('"')]
    if strip(got) != strip(want):
        raise Unsupported("interp1d_linear (checked variant) is no longer the code modelled by interp_checked in Model/Interp.v")
    # the unchecked variant
    ub, line0 = fn_body(src, "interp1d_linear_unchecked")
    toks = [(k, w, ln + line0) for k, w, ln in tokenize(ub)]
    p = Parser(toks)
    p.eat_seq("assert_eq!(x.len(), y.len(),", "length assertion")
    if toks[p.i][0] != "str": p.fail("length assertion message")
    p.i += 1
    p.eat_seq("); let n = x.len(); let k = tgt.len(); let mut interp = Vector::with_capacity(k); for i in 0..k {", "prelude")
    p.eat_seq("let mut idx = 0; for j in 0..n - 1 { if x[j] > tgt[i] { break; } idx += 1; }", "bracketing scan")
    body = p.stmts()
    p.eat_seq("} return interp;", "epilogue")
    if p.i != len(toks): p.fail("trailing code after `return interp;`")
    text = emit(body, "    ")
    out = f"""(* GENERATED by tools/tiea/interp_dispatch.py from src/functions/interpolate.rs. Do not edit.
   One iteration of the loop over the targets of interp1d_linear_unchecked, after the bracketing scan:
   [idx] is the scan's result, [n = x.len() = y.len()], [tgt_i = tgt[i]].
   Rust locals are prefixed with v_.  Push v = interp.push(v); Abort = panic (explicit, slice bound or usize underflow); Skip = nothing pushed. *)
From Coq Require Import List Arith Bool.
From Compute Require Import Base.Ops.

Inductive step (T : Type) := Push (v : T) | Abort | Skip.
Arguments Push {{T}} _. Arguments Abort {{T}}. Arguments Skip {{T}}.

(* enum ExtrapolationMode *)
Inductive xmode (T : Type) := XPanic | XFill (left right : T) | XExtrapolate.
Arguments XPanic {{T}}. Arguments XFill {{T}} _ _. Arguments XExtrapolate {{T}}.

Definition target_step {{T : Type}} (O : Ops T) (x y : list T) (n idx : nat) (tgt_i : T)
                       (extrapolate : xmode T) : step T :=
    {text}.
"""
    return out


if __name__ == "__main__":
    import sys
    print(generate(sys.argv[1] if len(sys.argv) > 1 else "/repo/src"))
