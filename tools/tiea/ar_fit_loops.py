"""Tie A for C13: `AR::fit` and `AR::new` of src/timeseries/autoregressive.rs translated statement for statement by the
statement-level translator (LoopTranslator of tools/rsexpr.py) into coq/theories/Generated/ar_fit_loops.v (the other
methods of AR and timeseries/functions.rs are in tools/tiea/ts_loops.py, where `fit` is refused because that target does not
list the routines it calls).  Proofs/TieA_ar_fit_loops.v proves the generated functions equal to the hand-written model
(`ar_fit`, `ar_new_fit` of Model/TimeSeries.v) for every carrier and input; Properties/C13.v pins the equalities as
C13_model_is_source_fit / _new.
Of `struct AR` all three fields (p, coeffs, intercept) are modelled; `fit` is a `&mut self` method: rendered as the fields
after the call (`self.intercept = ..`, `self.coeffs = ..; self.coeffs.reverse()` rebind them).  The routines of other files
are abstract parameters of the generated text, instantiated in the theorems by their models: `mean_` (statistics: tied in
stats_loops), `acf_` (timeseries/functions.rs: tied in ts_loops, C13_model_is_source_acf), `toeplitz_` (linalg/utils.rs:
tied in ctor_loops, C15_model_is_source_toeplitz), `matmul_` (tied in matmul_loops, C05_model_is_source_matmul) and
`invert_matrix_` (the model is parametric in it as well: the recorded sub-call `inv`, whose correctness C01 discharges)."""
import os, sys
sys.path.insert(0, os.path.join(os.path.dirname(os.path.abspath(__file__)), ".."))
import rsexpr
from rsexpr import Module, LoopTranslator, Config

LF = ("list", "f")


def generate(src_dir):
    rsexpr.selftest()
    cfg = Config(calls={"mean": ("mean_", [LF], "f"),
                        "acf": ("acf_", [LF, "si"], ("opt", "f")),
                        "toeplitz": ("toeplitz_", [LF], ("opt", LF)),
                        "invert_matrix": ("invert_matrix_", [LF], ("opt", LF)),
                        "matmul": ("matmul_", [LF, LF, "i", "i", "b", "b"], ("opt", LF))},
                 param_types={"Vector": LF})
    cfg.struct_literals = True      # `AR { p, coeffs: .., intercept: .. }` ending the constructor: the triple of the fields
    tr = LoopTranslator(Module(os.path.join(src_dir, "timeseries", "autoregressive.rs")), cfg)
    out = [rsexpr.loops_header("tools/tiea/ar_fit_loops.py", ["timeseries/autoregressive.rs"], mut=True), "",
           "(* impl AR: the fields p, coeffs, intercept of `self` are the first three arguments; `fit` (&mut self) returns the fields after the call *)"]
    out.append(tr.function("AR", "fit", "src_fit", self_fields=["p", "coeffs", "intercept"], result="fields").text)
    out.append("(* the constructor: the fields (p, coeffs, intercept) of the new object *)")
    out.append(tr.function("AR", "new", "src_new").text)
    out += ["", "(* translator notes: " + ("; ".join(tr.notes) or "none") + " *)"]
    return "\n".join(out) + "\n"
