"""Tie A for C01 (fourth round): the linear-system entry points of src/linalg/utils.rs — `row_to_col_major`,
`col_to_row_major`, `solve`, `solve_sys`, `invert_matrix` — translated statement for statement by the statement-level
translator (LoopTranslator of tools/rsexpr.py) into coq/theories/Generated/solve_loops.v (the `#[cfg(feature = "lapack")]`
blocks are not compiled in the verified build and are skipped unread; the `#[cfg(not(feature = "lapack"))]` blocks are the
code).  Proofs/TieA_solve_loops.v proves each generated function equal to the hand-written model of Model/Solve.v for every
carrier, every input and EVERY factorisation routine: like the model, the generated text is parametric in the routines it
calls — `is_positive_definite_`, `try_cholesky_`, `cholesky_solve_`, `lu_`, `lu_solve_` (translated and tied in linalg_loops:
C11_model_is_source_*), `is_square_` (an f32 square root: outside the subset), `is_matrix_` (tied in linalg_loops),
`diag_matrix_` (tied in ctor_loops) — which the theorems instantiate by the section variables of Model/Solve.v, so that
Model/SolveInst.v's instantiation by the models of C11 carries over.  Properties/C01.v pins the equalities as
C01_model_is_source_*; the two layout conversions are also pinned against the loop models of Model/Shape.v in
Properties/C15.v."""
import os, sys
sys.path.insert(0, os.path.join(os.path.dirname(os.path.abspath(__file__)), ".."))
import rsexpr
from rsexpr import Module, LoopTranslator, Config

LF = ("list", "f")
LI = ("list", "si")      # the pivot vector Vec<i32>
FNS = ["row_to_col_major", "col_to_row_major", "solve", "solve_sys", "invert_matrix"]


def generate(src_dir):
    rsexpr.selftest()
    cfg = Config(calls={"is_square": ("is_square_", [LF], ("optval", "i")),
                        "is_matrix": ("is_matrix_", [LF, "i"], ("optval", "i")),
                        "is_positive_definite": ("is_positive_definite_", [LF], ("opt", "b")),
                        "try_cholesky": ("try_cholesky_", [LF], ("opt", ("opt", LF))),
                        "cholesky_solve": ("cholesky_solve_", [LF, LF], ("opt", LF)),
                        "lu": ("lu_", [LF], ("opt", ("tup", (LF, LI)))),
                        "lu_solve": ("lu_solve_", [LF, LI, LF], ("opt", LF)),
                        "diag_matrix": ("diag_matrix_", [LF], ("opt", LF))},
                 param_types={"Vector": LF})
    tr = LoopTranslator(Module(os.path.join(src_dir, "linalg", "utils.rs")), cfg)
    out = [rsexpr.loops_header("tools/tiea/solve_loops.py", ["linalg/utils.rs"], mut=True), ""]
    for fn in FNS:
        out.append(tr.function(None, fn, "src_" + fn).text)
    out += ["", "(* translator notes: " + ("; ".join(tr.notes) or "none") + " *)"]
    return "\n".join(out) + "\n"
