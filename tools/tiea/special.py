"""Tie A for C09: `beta`, `gamma`, `digamma` of src/functions/gamma.rs and `erf` of
src/functions/statistical.rs, translated operation for operation by the expression translator tools/rsexpr.py into
coq/theories/Generated/special.v.  The literals are NOT duplicated: the module constants and the Lanczos table are
referred to by the names tools/tiea/special_consts.py generates (Generated/special_consts.v); this module checks that
the names it maps are the constants the source defines.

A recursive call (`gamma(1. - z)`, `digamma(x + 1.)`, `erf(-x)`) is rendered as a call of an
abstract parameter (Gam, Dig, Erf): the generated term is the function's BODY, i.e. one unfolding of the
recursion.  Proofs/TieA_special.v relates it to Model/Special.v (which resolves the recursion: the reflected argument
takes the other branch; digamma takes fuel).  The Lanczos loop
`let mut x = c0; for (idx, val) in GAMMA_COEFFS.iter().enumerate() { x += val / (..); }` is rendered as rs_fold_enum."""
import os, re, sys
sys.path.insert(0, os.path.join(os.path.dirname(os.path.abspath(__file__)), ".."))
import rsexpr
from rsexpr import Module, Translator, Config, Unsupported

GAMMA_CONSTS = {"G": "ofLit O lanczos_G"}
ERF_CONSTS = {n: f"ofLit O {n.lower()}" for n in ["ERF_P", "ERF_A1", "ERF_A2", "ERF_A3", "ERF_A4", "ERF_A5"]}


def generate(src_dir):
    rsexpr.selftest()      # the translator checks itself first (precedence, literal rule, refusals)
    g = Module(os.path.join(src_dir, "functions", "gamma.rs"))
    st = Module(os.path.join(src_dir, "functions", "statistical.rs"))
    for n in GAMMA_CONSTS:
        if n not in g.consts: raise Unsupported(f"gamma.rs: constant `{n}` (mapped to Generated/special_consts.v) is no longer defined")
    for n in ERF_CONSTS:
        if n not in st.consts: raise Unsupported(f"statistical.rs: constant `{n}` (mapped to Generated/special_consts.v) is no longer defined")
    if not re.search(r"const GAMMA_COEFFS: \[f64; \d+\] =", g.src.text):
        raise Unsupported("gamma.rs: GAMMA_COEFFS (mapped to lanczos_coeffs of Generated/special_consts.v) is no longer a constant f64 array")
    calls = {"gamma": ("Gam", ["f"], "f"), "ln_gamma": ("LnGam", ["f"], "f"), "digamma": ("Dig", ["f"], "f")}
    arrays = {"GAMMA_COEFFS": ("lanczos_coeffs", "Q * float", "ofLit O {v}")}
    tg = Translator(g, Config(calls=calls, consts=GAMMA_CONSTS, arrays=arrays))
    te = Translator(st, Config(calls={"erf": ("Erf", ["f"], "f")}, consts=ERF_CONSTS))
    out = [rsexpr.header("tools/tiea/special.py", ["functions/gamma.rs", "functions/statistical.rs"]),
           "From Compute Require Import Generated.special_consts.   (* the literals: lanczos_G, lanczos_coeffs, erf_p, .. *)", ""]
    for fn in ["beta", "gamma", "digamma"]:      # ln_gamma belongs to C03 (tools/tiea/samplers.py)
        out.append(tg.function(None, fn, "src_" + fn).text)
    out.append(te.function(None, "erf", "src_erf").text)
    out.append("")
    notes = tg.notes + [n for n in te.notes if n not in tg.notes]
    out.append("(* translator notes: " + ("; ".join(notes) or "none") + " *)")
    return "\n".join(out) + "\n"
