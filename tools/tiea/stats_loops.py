"""Tie A for C08: the loops of src/statistics/{moments,covariance,order,hist}.rs translated statement for statement by the
statement-level translator (LoopTranslator of tools/rsexpr.py) into coq/theories/Generated/stats_loops.v.
Proofs/TieA_stats_loops.v proves each generated function equal to the hand-written model (Model/Stats.v) for every
carrier and every data list; Properties/C08.v pins those equalities as C08_model_is_source_*.
Slices are lists, `usize` values live in Z (`x.len()` = rs_len x), unsigned `a - b` is the release build's wrapping
`rs_usub`, a panic (failed assert_eq!, out-of-bounds index) is None.  `linalg::sum` (the 8-way unrolled sum, another
file) is the abstract parameter `sum_`; the theorems instantiate it by the C04 model `Reduce.sum`."""
import os, sys
sys.path.insert(0, os.path.join(os.path.dirname(os.path.abspath(__file__)), ".."))
import rsexpr
from rsexpr import Module, LoopTranslator, Config

FILES = [
    ("statistics/moments.rs", ["welford_update", "welford_statistics", "mean", "welford_mean", "var", "sample_var", "std", "sample_std"]),
    ("statistics/covariance.rs", ["covariance", "sample_covariance", "sample_covariance_onepass", "sample_covariance_online"]),
    ("statistics/order.rs", ["min", "max", "argmin", "argmax"]),
    ("statistics/hist.rs", ["hist_bin_centers"]),
]


def generate(src_dir):
    rsexpr.selftest()
    cfg = Config(calls={"sum": ("sum_", [("list", "f")], "f")}, param_types={"Vector": ("list", "f")})
    out = [rsexpr.loops_header("tools/tiea/stats_loops.py", [f for f, _ in FILES]), ""]
    notes = []
    for f, fns in FILES:
        tr = LoopTranslator(Module(os.path.join(src_dir, f)), cfg)
        out.append(f"(* {f} *)")
        for fn in fns:
            out.append(tr.function(None, fn, "src_" + fn).text)
        notes += [n for n in tr.notes if n not in notes]
        out.append("")
    out.append("(* translator notes: " + ("; ".join(notes) or "none") + " *)")
    return "\n".join(out) + "\n"
