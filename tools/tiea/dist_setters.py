#!/usr/bin/env python3
"""Tie A translator: the parameter state machine of every univariate distribution of src/distributions/*.rs
-> coq/theories/Generated/dist_setters.v.

For each of the 13 structs it translates the struct declaration, `new`, and EVERY method taking `&mut self`
found in any impl block of the type (inherent setters, `Distribution1D::update`); methods taking `&self`
cannot mutate (all field types are checked to be plain numbers or other translated structs, so there is no
interior mutability) and are skipped.  Subset handled -- anything else raises `Unsupported` with the line:

  struct   := `pub struct D { f: ty, ... }`            ty := f64 | usize | u64 | i64 | <translated struct>
  new      := `pub fn new(a: ty, ...) -> Self { guard* D { f | f: expr, ... } }`   (every argument is a field name)
  method   := `fn m(&mut self, a: ty, ...) [-> &mut Self] { stmt* [self] }`
  guard    := `if cond { panic!(..) [;] }` | `assert!(cond [, "msg"]);`
  stmt     := guard | `self.f = expr;` | `self.m(expr,..)[.m(expr,..)]* ;` | `*self = Self::new(expr,..);`
  cond     := expr (<|<=|>|>=|==) expr | cond `||` cond | cond `&&` cond | `!`cond | `(`cond`)`
              | `(expr ..= expr).contains(&expr)` | `params.len() == INT`
  expr     := literal | argument | `self.f` | `params[INT]` | expr `as` ty | `(`expr`)` | expr (+|-|*|/) expr (f64 only)
              | `D::new(expr,..)` / `Self::new(expr,..)`
Semantics emitted: a failed guard, an out-of-range `params[i]` and a panicking constructor call stop the method
with `Panicked s`, s being the object as mutated so far; evaluation is left to right as in Rust.  Float
comparisons become leb/ltb/eqb of the carrier (so NaN behaves as in IEEE on binary64), integer comparisons are
on Z; float literals must be exact dyadic rationals (0. 1. 0.5 2.); `x as usize/u64` saturates (cast_u64), `x as i64`
is truncZ, `n as f64` is of_u64 (unsigned) / ofZ (i64).  usize is taken to be 64 bits wide.

The SPEC side of each machine (m_target, m_wf, m_is_update) is produced from names and signatures only: a method
named `set_<f>` with one argument asks for the constructor's parameter tuple with <f> replaced; `update(params)`
asks for (cast params[0], cast params[1], ...) in the constructor's argument order.  Whether the bodies do that
is what Proofs/C18.v proves over the generated text.
"""
import os, re
from fractions import Fraction

class Unsupported(Exception):
    pass

# (file, struct) in the order that fixes the distribution ids used by the harness
DISTS = [("bernoulli", "Bernoulli"), ("beta", "Beta"), ("binomial", "Binomial"), ("chi_squared", "ChiSquared"),
         ("discreteuniform", "DiscreteUniform"), ("exponential", "Exponential"), ("gamma", "Gamma"),
         ("gumbel", "Gumbel"), ("normal", "Normal"), ("pareto", "Pareto"), ("poisson", "Poisson"),
         ("t", "T"), ("uniform", "Uniform")]
OTHER_MODULES = {"multivariatenormal"}          # not a Distribution1D, not part of C18
INT_TYPES = {"usize": "u", "u64": "u", "i64": "i"}

TOK = re.compile(r"""\s*(?:
    (?P<str>"(?:[^"\\]|\\.)*")
  | (?P<num>\d[\d_]*\.\d*(?:[eE][+-]?\d+)?(?:_?f64)?|\d[\d_]*(?:_?(?:f64|usize|u64|i64))?)
  | (?P<id>[A-Za-z_][A-Za-z0-9_]*!?)
  | (?P<p>\.\.=|::|->|<=|>=|==|!=|\|\||&&|[()\[\]{},;.&=:<>!+\-*/%|#'])
)""", re.X)


def strip_comments(src):
    out, i, n = [], 0, len(src)
    while i < n:
        if src.startswith("//", i):
            j = src.find("\n", i)
            i = n if j < 0 else j
        elif src.startswith("/*", i):
            j = src.find("*/", i)
            if j < 0: raise Unsupported("unterminated block comment")
            out.append("\n" * src.count("\n", i, j + 2)); i = j + 2
        elif src[i] == '"':
            m = re.compile(r'"(?:[^"\\]|\\.)*"').match(src, i)
            if not m: raise Unsupported("unterminated string")
            out.append(m.group(0)); i = m.end()
        else:
            out.append(src[i]); i += 1
    return "".join(out)


def tokenize(src, fname):
    toks, i = [], 0
    while True:
        m = TOK.match(src, i)
        if not m or m.end() == i:
            if src[i:].strip() == "": break
            raise Unsupported(f"{fname}:{1 + src.count(chr(10), 0, i)}: cannot tokenize {src[i:i+30].strip()!r}")
        kind = m.lastgroup
        toks.append((kind, m.group(kind), 1 + src.count("\n", 0, m.start(kind))))
        i = m.end()
    return toks


class Parser:
    def __init__(self, toks, fname, structs):
        self.t, self.i, self.fname, self.structs = toks, 0, fname, structs

    def err(self, msg):
        ln = self.t[self.i][2] if self.i < len(self.t) else "EOF"
        near = " ".join(x[1] for x in self.t[self.i:self.i + 8])
        raise Unsupported(f"{self.fname}:{ln}: {msg} (near `{near}`)")

    def peek(self, k=0):
        return self.t[self.i + k][1] if self.i + k < len(self.t) else None
    def kind(self, k=0):
        return self.t[self.i + k][0] if self.i + k < len(self.t) else None
    def next(self):
        v = self.peek()
        if v is None: self.err("unexpected end")
        self.i += 1
        return v
    def eat(self, v):
        if self.peek() != v: self.err(f"expected `{v}`")
        self.i += 1
    def accept(self, v):
        if self.peek() == v:
            self.i += 1; return True
        return False
    def ident(self):
        if self.kind() != "id" or self.peek().endswith("!"): self.err("identifier expected")
        return self.next()

    def skip_balanced(self, open_, close):
        self.eat(open_); depth = 1
        while depth:
            v = self.next()
            if v == open_: depth += 1
            elif v == close: depth -= 1

    # ---- types
    def ty(self):
        if self.accept("&"):
            self.accept("mut")
            if self.accept("["):
                t = self.ty(); self.eat("]"); return ("slice", t)
            return ("ref", self.ty())
        name = self.ident()
        while self.accept("::"): name += "::" + self.ident()
        if self.peek() == "<": self.err("generic type")
        return name

    # ---- expressions
    def expr(self): return self.e_or()
    def e_or(self):
        a = self.e_and()
        while self.accept("||"): a = ("or", a, self.e_and())
        return a
    def e_and(self):
        a = self.e_cmp()
        while self.accept("&&"): a = ("and", a, self.e_cmp())
        return a
    def e_cmp(self):
        a = self.e_add()
        if self.peek() in ("<", "<=", ">", ">=", "==", "!="):
            op = self.next(); a = ("cmp", op, a, self.e_add())
        return a
    def e_add(self):
        a = self.e_mul()
        while self.peek() in ("+", "-"):
            op = self.next(); a = ("bin", op, a, self.e_mul())
        return a
    def e_mul(self):
        a = self.e_cast()
        while self.peek() in ("*", "/"):
            op = self.next(); a = ("bin", op, a, self.e_cast())
        return a
    def e_cast(self):
        a = self.e_unary()
        while self.accept("as"): a = ("cast", a, self.ty())
        return a
    def e_unary(self):
        if self.accept("!"): return ("not", self.e_unary())
        if self.accept("&"): return ("addr", self.e_unary())
        if self.peek() == "-": self.err("unary minus")
        if self.peek() == "*": self.err("dereference in expression")
        return self.e_postfix()
    def args(self):
        self.eat("("); out = []
        while not self.accept(")"):
            out.append(self.expr())
            if self.peek() != ")": self.eat(",")
        return out
    def e_postfix(self):
        a = self.e_primary()
        while True:
            if self.peek() == "." and self.kind(1) == "id":
                self.next(); name = self.ident()
                if self.peek() == "(": a = ("mcall", a, name, self.args())
                else: a = ("field", a, name)
            elif self.peek() == "[":
                self.next(); ix = self.expr(); self.eat("]"); a = ("index", a, ix)
            else:
                return a
    def e_primary(self):
        k, v = self.kind(), self.peek()
        if k == "num":
            self.next(); return ("lit", v)
        if v == "(":
            self.next(); a = self.expr()
            if self.accept("..="):
                b = self.expr(); self.eat(")"); return ("range", a, b)
            self.eat(")"); return ("paren", a)
        if k == "id":
            if v.endswith("!"): self.err(f"macro `{v}` in expression")
            name = self.ident()
            if self.accept("::"):
                fn = self.ident()
                if self.peek() != "(": self.err("path that is not a call")
                return ("pcall", name, fn, self.args())
            if self.peek() == "{" and (name == "Self" or name in self.structs):
                self.next(); fields = []
                while not self.accept("}"):
                    f = self.ident()
                    e = self.expr() if self.accept(":") else ("var", f)
                    fields.append((f, e))
                    if self.peek() != "}": self.eat(",")
                return ("struct", name, fields)
            if self.peek() == "(": self.err(f"call of free function `{name}`")
            return ("var", name)
        self.err("expression expected")

    # ---- statements
    def panic_block(self):
        self.eat("{")
        if self.peek() != "panic!": self.err("only `panic!(..)` is allowed in an `if` body")
        self.next(); self.skip_balanced("(", ")"); self.accept(";"); self.eat("}")

    def block(self):
        """list of statements of a fn body (after `{`, up to the matching `}`)"""
        out = []
        while not self.accept("}"):
            v = self.peek()
            if v == "if":
                self.next(); c = self.expr(); self.panic_block()
                if self.peek() == "else": self.err("`else` after a panic guard")
                out.append(("panic_if", c))
            elif v == "assert!":
                self.next(); self.eat("(")
                c = self.expr()
                if self.accept(","):
                    if self.kind() != "str": self.err("assert! message must be a string literal")
                    self.next()
                self.eat(")"); self.eat(";")
                out.append(("assert", c))
            elif v == "*":
                self.next(); self.eat("self"); self.eat("=")
                e = self.expr(); self.eat(";")
                out.append(("assign_self", e))
            elif v in ("let", "for", "while", "loop", "match", "return", "unsafe"):
                self.err(f"`{v}` is outside the translated subset")
            else:
                e = self.expr()
                if self.accept("="):
                    if e[0] != "field" or e[1] != ("var", "self"): self.err("assignment to something that is not `self.f`")
                    rhs = self.expr(); self.eat(";")
                    out.append(("assign", e[2], rhs))
                elif self.accept(";"):
                    out.append(("expr", e))
                else:
                    if self.peek() != "}": self.err("`;` or `}` expected")
                    out.append(("tail", e))
        return out


# ------------------------------------------------------------------------------------------------ items
def parse_file(fname, text, sname, structs):
    """returns (fields, new_fn, methods) for the struct of this file; functions are (name, args, body, line)"""
    src = strip_comments(text)
    cut = re.search(r"#\[cfg\(test\)\]|#\[test\]", src)
    if cut: src = src[:cut.start()]
    toks = tokenize(src, fname)
    p = Parser(toks, fname, structs)
    fields, new_fn, methods = None, None, []
    while p.i < len(toks):
        v = p.peek()
        if v == "#":                       # attribute
            p.next(); p.accept("!"); p.skip_balanced("[", "]")
        elif v in ("use", "const", "type", "static"):
            if v == "type":                # `pub type StudentsT = T;` : an alias, no new state
                pass
            while p.next() != ";": pass
        elif v == "pub":
            p.next()
        elif v == "struct":
            p.next(); name = p.ident()
            if name != sname: p.err(f"unexpected struct `{name}`")
            p.eat("{"); fields = []
            while not p.accept("}"):
                p.accept("pub")
                f = p.ident(); p.eat(":"); t = p.ty()
                if isinstance(t, tuple): p.err("reference field")
                fields.append((f, t))
                if p.peek() != "}": p.eat(",")
        elif v == "impl":
            p.next(); a = p.ident(); trait = None
            if p.accept("for"):
                trait, a = a, p.ident()
            if a != sname: p.err(f"impl for `{a}`, expected `{sname}`")
            p.eat("{")
            while not p.accept("}"):
                w = p.peek()
                if w == "#": p.next(); p.skip_balanced("[", "]"); continue
                if w == "pub": p.next(); continue
                if w == "type":
                    while p.next() != ";": pass
                    continue
                if w != "fn": p.err("item in impl block")
                p.next(); line = toks[p.i][2]; fname_ = p.ident()
                p.eat("(")
                args, selfkind = [], None
                while not p.accept(")"):
                    if p.peek() == "&" and p.peek(1) == "mut" and p.peek(2) == "self":
                        p.i += 3; selfkind = "mut"
                    elif p.peek() == "&" and p.peek(1) == "self":
                        p.i += 2; selfkind = "ref"
                    elif p.peek() == "self" or (p.peek() == "mut" and p.peek(1) == "self"):
                        p.err("method taking `self` by value")
                    else:
                        an = p.ident(); p.eat(":"); args.append((an, p.ty()))
                    if p.peek() != ")": p.eat(",")
                ret = None
                if p.accept("->"):
                    ret = []
                    while p.peek() != "{": ret.append(p.next())
                    ret = " ".join(ret)
                if selfkind == "mut" or (fname_ == "new" and trait is None):
                    for an, at in args:
                        if at != ("slice", "f64") and at != "f64" and at not in INT_TYPES:
                            p.err(f"argument `{an}` of `{fname_}` has a type outside the subset")
                    p.eat("{"); body = p.block()
                    fn = (fname_, args, body, line, ret, trait)
                    if fname_ == "new":
                        if selfkind is not None: p.err("`new` with a self argument")
                        new_fn = fn
                    else:
                        methods.append(fn)
                else:
                    p.skip_balanced("{", "}")
        elif v == "fn":                    # free helper functions (samplers): no access to any object
            p.next(); p.ident(); p.skip_balanced("(", ")")
            while p.peek() != "{": p.next()
            p.skip_balanced("{", "}")
        else:
            p.err("top-level item outside the translated subset")
    if fields is None: raise Unsupported(f"{fname}: struct {sname} not found")
    if new_fn is None: raise Unsupported(f"{fname}: {sname}::new not found")
    return fields, new_fn, methods


# ------------------------------------------------------------------------------------------------ emission
def lit_value(text, fname):
    t = text.replace("_", "")
    isf = "." in t or "e" in t.lower() or t.endswith("f64")
    for suf in ("f64", "usize", "u64", "i64"):
        if t.endswith(suf): t = t[:-len(suf)]
    return ("f64" if isf else "int"), Fraction(t)


def coq_float_lit(q, where):
    if q == 0: return "(zero O)"
    if q == 1: return "(one O)"
    d = q.denominator
    if d & (d - 1) or q.numerator >= 2 ** 53:
        raise Unsupported(f"{where}: float literal {q} is not an exact dyadic rational")
    return f"(ofQ O ({q.numerator} # {q.denominator}))"


class Emit:
    """typed emission of one function body in continuation-passing style"""
    def __init__(self, dist, dists, env, where, in_new):
        self.d, self.dists, self.env, self.where, self.in_new = dist, dists, env, where, in_new
        self.n = 0

    def fresh(self, base):
        self.n += 1
        return f"{base}{self.n}"

    def bad(self, msg): raise Unsupported(f"{self.where}: {msg}")

    def is_float(self, t): return t == "f64"
    def is_int(self, t): return t in INT_TYPES

    # value expressions: returns coq text via continuation k(text, type) -> text
    def val(self, e, k, want=None):
        tag = e[0]
        if tag == "paren": return self.val(e[1], k, want)
        if tag == "lit":
            kind, q = lit_value(e[1], self.where)
            if kind == "f64": return k(coq_float_lit(q, self.where), "f64")
            if want == "f64": self.bad(f"integer literal {e[1]} where a float is expected")
            if q.denominator != 1: self.bad("non-integer int literal")
            return k(f"{q.numerator}%Z", want if want in INT_TYPES else "int")
        if tag == "var":
            if e[1] not in self.env: self.bad(f"unknown identifier `{e[1]}`")
            t = self.env[e[1]]
            if isinstance(t, tuple): self.bad(f"slice `{e[1]}` used as a value")
            return k(e[1], t)
        if tag == "field":
            if e[1] != ("var", "self") or self.in_new: self.bad("field access on something that is not `self`")
            ft = dict(self.dists[self.d]["fields"]).get(e[2])
            if ft is None: self.bad(f"no field `{e[2]}`")
            return k(f"({self.d}_{e[2]} self)", ft)
        if tag == "index":
            if e[1][0] != "var" or self.env.get(e[1][1]) != ("slice", "f64"): self.bad("indexing something that is not a `&[f64]` argument")
            if e[2][0] != "lit" or lit_value(e[2][1], self.where)[0] != "int": self.bad("non-literal index")
            if self.in_new: self.bad("indexing inside `new`")
            ix = int(lit_value(e[2][1], self.where)[1]); v = self.fresh("p")
            return f"with_param {e[1][1]} {ix} self (fun {v} =>\n  {k(v, 'f64')})"
        if tag == "cast":
            to = e[2]
            def k2(txt, t):
                if t == "int": self.bad("cast of an untyped integer literal")
                if t == to: return k(txt, to)
                if self.is_float(t) and INT_TYPES.get(to) == "u": return k(f"(cast_u64 O {txt})", to)
                if self.is_float(t) and INT_TYPES.get(to) == "i": return k(f"(cast_i64 O {txt})", to)
                if INT_TYPES.get(t) == "u" and to == "f64": return k(f"(of_u64 O {txt})", "f64")
                if INT_TYPES.get(t) == "i" and to == "f64": return k(f"(ofZ O {txt})", "f64")
                self.bad(f"cast {t} as {to}")
            return self.val(e[1], k2)
        if tag == "bin":
            def ka(a, ta):
                def kb(b, tb):
                    if ta != "f64" or tb != "f64": self.bad("integer arithmetic (overflow semantics) is outside the subset")
                    op = {"+": "add", "-": "sub", "*": "mul", "/": "div"}[e[1]]
                    return k(f"({op} O {a} {b})", "f64")
                return self.val(e[3], kb, "f64")
            return self.val(e[2], ka, "f64")
        if tag == "pcall":
            target = self.d if e[1] == "Self" else e[1]
            if e[2] != "new" or target not in self.dists: self.bad(f"call `{e[1]}::{e[2]}`")
            sig = self.dists[target]["new_args"]
            if len(sig) != len(e[3]): self.bad(f"{target}::new arity")
            def go(i, acc):
                if i == len(sig):
                    call = f"({target}_new {' '.join(acc)})"
                    v = self.fresh("c")
                    if self.in_new:
                        return f"obind {call} (fun {v} =>\n  {k(v, target)})"
                    return f"with_new {call} self (fun {v} =>\n  {k(v, target)})"
                def ki(txt, t):
                    if t == "int": t = sig[i][1]
                    if t != sig[i][1]: self.bad(f"argument {i} of {target}::new has type {t}, expected {sig[i][1]}")
                    return go(i + 1, acc + [txt])
                return self.val(e[3][i], ki, sig[i][1])
            return go(0, [])
        self.bad(f"expression form `{tag}` where a value is expected")

    def pure(self, e, want=None):
        """a value expression that cannot panic"""
        box = {}
        def k(txt, t):
            box["t"] = t; return "\0" + txt
        r = self.val(e, k, want)
        if not r.startswith("\0"): self.bad("panicking sub-expression inside a condition")
        return r[1:], box["t"]

    def cond(self, e):
        tag = e[0]
        if tag == "paren": return self.cond(e[1])
        if tag == "or": return f"({self.cond(e[1])} || {self.cond(e[2])})"
        if tag == "and": return f"({self.cond(e[1])} && {self.cond(e[2])})"
        if tag == "not": return f"(negb {self.cond(e[1])})"
        if tag == "mcall" and e[2] == "contains" and e[1][0] in ("range",) or \
           (tag == "mcall" and e[2] == "contains" and e[1][0] == "paren" and e[1][1][0] == "range"):
            rng = e[1] if e[1][0] == "range" else e[1][1]
            if len(e[3]) != 1 or e[3][0][0] != "addr": self.bad("`contains` expects `&x`")
            lo, tl = self.pure(rng[1], "f64"); hi, th = self.pure(rng[2], "f64"); x, tx = self.pure(e[3][0][1], "f64")
            if not (tl == th == tx == "f64"): self.bad("`contains` on non-float range")
            return f"(leb O {lo} {x} && leb O {x} {hi})"
        if tag == "cmp":
            op, a, b = e[1], e[2], e[3]
            # params.len() == N
            if a[0] == "mcall" and a[2] == "len" and a[1][0] == "var" and isinstance(self.env.get(a[1][1]), tuple):
                if op != "==" or b[0] != "lit": self.bad("only `params.len() == N` is handled")
                return f"(Nat.eqb (length {a[1][1]}) {int(lit_value(b[1], self.where)[1])})"
            ta_hint = None
            for side in (a, b):
                try:
                    _, t = self.pure(side)
                    if t != "int": ta_hint = t
                except Unsupported:
                    pass
            x, tx = self.pure(a, ta_hint); y, ty = self.pure(b, ta_hint)
            if tx == "int": tx = ty
            if ty == "int": ty = tx
            if tx != ty: self.bad(f"comparison of {tx} with {ty}")
            if tx == "f64":
                return {"<": f"(ltb O {x} {y})", "<=": f"(leb O {x} {y})", ">": f"(ltb O {y} {x})", ">=": f"(leb O {y} {x})",
                        "==": f"(eqb O {x} {y})", "!=": f"(negb (eqb O {x} {y}))"}[op]
            if tx in INT_TYPES:
                return {"<": f"(Z.ltb {x} {y})", "<=": f"(Z.leb {x} {y})", ">": f"(Z.ltb {y} {x})", ">=": f"(Z.leb {y} {x})",
                        "==": f"(Z.eqb {x} {y})", "!=": f"(negb (Z.eqb {x} {y}))"}[op]
            self.bad(f"comparison at type {tx}")
        self.bad(f"condition form `{tag}`")


def coq_ty(t):
    return "T" if t == "f64" else "Z" if t in INT_TYPES else f"{t}_state"


def gen_dist(d, dists, fname):
    info = dists[d]
    fields, (nname, nargs, nbody, nline, nret, _), methods = info["fields"], info["new"], info["methods"]
    out = []
    fnames = [f for f, _ in fields]
    # --- record, projections are D_f, updates D_with_f
    out.append(f"(* ---- {d}  (src/distributions/{fname}.rs) ---- *)")
    out.append(f"Record {d}_state := mk_{d} {{ " + "; ".join(f"{d}_{f} : {coq_ty(t)}" for f, t in fields) + " }.")
    for f, t in fields:
        body = " ".join("v" if g == f else f"({d}_{g} s)" for g in fnames)
        out.append(f"Definition {d}_with_{f} (s : {d}_state) (v : {coq_ty(t)}) : {d}_state := mk_{d} {body}.")
    # --- new
    where = f"{fname}.rs:{nline} ({d}::new)"
    ftypes = dict(fields)
    for a, t in nargs:
        if isinstance(t, tuple): raise Unsupported(f"{where}: reference argument")
        if ftypes.get(a) != t: raise Unsupported(f"{where}: constructor argument `{a}: {t}` is not a field of the same name and type")
    em = Emit(d, dists, dict(nargs), where, True)
    def new_stmts(i):
        if i == len(nbody): raise Unsupported(f"{where}: constructor without a struct-literal tail")
        st = nbody[i]
        if st[0] == "panic_if": return f"if {em.cond(st[1])} then None else\n  {new_stmts(i + 1)}"
        if st[0] == "assert": return f"if {em.cond(st[1])} then\n  {new_stmts(i + 1)}\n  else None"
        if st[0] == "tail" and st[1][0] == "struct":
            if i != len(nbody) - 1: raise Unsupported(f"{where}: statements after the struct literal")
            lit = st[1][2]
            if sorted(f for f, _ in lit) != sorted(fnames): raise Unsupported(f"{where}: struct literal does not list every field exactly once")
            vals = {}
            def go(j):
                if j == len(lit):
                    return f"Some (mk_{d} {' '.join(vals[f] for f in fnames)})"
                f, e = lit[j]
                def k(txt, t):
                    if t == "int": t = ftypes[f]
                    if t != ftypes[f]: raise Unsupported(f"{where}: field `{f}` initialised with a {t}")
                    vals[f] = txt
                    return go(j + 1)
                return em.val(e, k, ftypes[f])
            return go(0)
        raise Unsupported(f"{where}: statement `{st[0]}` in constructor")
    argtxt = " ".join(f"({a} : {coq_ty(t)})" for a, t in nargs)
    out.append(f"Definition {d}_new {argtxt} : option {d}_state :=\n  {new_stmts(0)}.")
    # --- param tuple
    ptypes = [coq_ty(t) for _, t in nargs]
    ptype = " * ".join(ptypes) if len(ptypes) > 1 else ptypes[0]
    out.append(f"Definition {d}_param : Type := ({ptype})%type.")
    pat = "'(" + ", ".join(a for a, _ in nargs) + ")" if len(nargs) > 1 else nargs[0][0]
    out.append(f"Definition {d}_new_p (th : {d}_param) : option {d}_state := let {pat} := th in {d}_new {' '.join(a for a, _ in nargs)}.")
    out.append(f"Definition {d}_params (s : {d}_state) : {d}_param := ({', '.join(f'{d}_{a} s' for a, _ in nargs)}).")
    # --- methods
    msigs = {}
    specs = []          # (ctor name, args, method name, kind)
    for (mname, margs, mbody, mline, mret, trait) in methods:
        where = f"{fname}.rs:{mline} ({d}::{mname})"
        env = dict(margs)
        em = Emit(d, dists, env, where, False)
        def stmts(i):
            if i == len(mbody): return "Ok self"
            st = mbody[i]
            if st[0] == "panic_if": return f"if {em.cond(st[1])} then Panicked self else\n  {stmts(i + 1)}"
            if st[0] == "assert": return f"if {em.cond(st[1])} then\n  {stmts(i + 1)}\n  else Panicked self"
            if st[0] == "assign":
                f = st[1]
                if f not in ftypes: raise Unsupported(f"{where}: assignment to unknown field `{f}`")
                def k(txt, t):
                    if t == "int": t = ftypes[f]
                    if t != ftypes[f]: raise Unsupported(f"{where}: `self.{f}` assigned a {t}")
                    return f"let self := {d}_with_{f} self {txt} in\n  {stmts(i + 1)}"
                return em.val(st[2], k, ftypes[f])
            if st[0] == "assign_self":
                e = st[1]
                if e[0] != "pcall" or e[1] not in ("Self", d) or e[2] != "new": raise Unsupported(f"{where}: `*self = ` something other than `Self::new(..)`")
                def k(txt, t):
                    return f"let self := {txt} in\n  {stmts(i + 1)}"
                return em.val(e, k)
            if st[0] in ("expr", "tail"):
                e = st[1]
                if e == ("var", "self"):
                    if i != len(mbody) - 1: raise Unsupported(f"{where}: `self` in non-tail position")
                    return "Ok self"
                # chain of method calls on self
                calls = []
                while e[0] == "mcall":
                    calls.append((e[2], e[3])); e = e[1]
                if e != ("var", "self") or not calls: raise Unsupported(f"{where}: expression statement that is not a call chain on `self`")
                calls.reverse()
                def chain(j):
                    if j == len(calls): return stmts(i + 1)
                    cname, cargs = calls[j]
                    if cname not in msigs: raise Unsupported(f"{where}: call of `{cname}`, which is not an already translated &mut method")
                    sig = msigs[cname]
                    if len(sig) != len(cargs): raise Unsupported(f"{where}: arity of `{cname}`")
                    def go(a, acc):
                        if a == len(sig):
                            return f"rbind ({d}_{cname} self {' '.join(acc)}) (fun self =>\n  {chain(j + 1)})"
                        def k(txt, t):
                            if t == "int": t = sig[a][1]
                            if t != sig[a][1]: raise Unsupported(f"{where}: argument of `{cname}` has type {t}, expected {sig[a][1]}")
                            return go(a + 1, acc + [txt])
                        return em.val(cargs[a], k, sig[a][1])
                    return go(0, [])
                return chain(0)
            raise Unsupported(f"{where}: statement `{st[0]}`")
        for a, t in margs:
            if isinstance(t, tuple) and t != ("slice", "f64"): raise Unsupported(f"{where}: argument type")
        argtxt = " ".join(f"({a} : {'list T' if isinstance(t, tuple) else coq_ty(t)})" for a, t in margs)
        out.append(f"Definition {d}_{mname} (self : {d}_state) {argtxt} : result {d}_state :=\n  {stmts(0)}.")
        msigs[mname] = margs
        # spec side, from the name and signature only
        if mname == "update":
            if margs != [("params", ("slice", "f64"))] or trait != "Distribution1D": raise Unsupported(f"{where}: unexpected signature of update")
            specs.append((f"{d}_op_update", margs, mname, "update"))
        elif mname.startswith("set_") and len(margs) == 1 and (mname[4:], margs[0][1]) in nargs:
            specs.append((f"{d}_op_{mname}", margs, mname, "setter"))
        else:
            raise Unsupported(f"{where}: a &mut method that is neither `set_<parameter>(value)` nor `update(&[f64])`: no specification can be derived for it")
    if not any(k == "update" for *_, k in specs): raise Unsupported(f"{fname}.rs: no Distribution1D::update for {d}")
    # --- op type, step, target, wf
    out.append(f"Inductive {d}_op : Type :=\n" + "\n".join(
        f"  | {c} " + " ".join(f"({a} : {'list T' if isinstance(t, tuple) else coq_ty(t)})" for a, t in margs) for c, margs, _, _ in specs) + ".")
    out.append(f"Definition {d}_step (s : {d}_state) (o : {d}_op) : result {d}_state :=\n  match o with\n" + "\n".join(
        f"  | {c} {' '.join(a for a, _ in margs)} => {d}_{m} s {' '.join(a for a, _ in margs)}" for c, margs, m, _ in specs) + "\n  end.")
    def cast_of(t, v):
        return v if t == "f64" else f"(cast_u64 O {v})" if INT_TYPES[t] == "u" else f"(cast_i64 O {v})"
    n = len(nargs)
    cast_match = "match " + ", ".join(f"nth_error params {i}" for i in range(n)) + " with\n    | " + ", ".join(f"Some x{i}" for i in range(n)) + \
        " => Some (" + ", ".join(cast_of(t, f"x{i}") for i, (_, t) in enumerate(nargs)) + ")\n    | " + ", ".join("_" for _ in range(n)) + " => None\n    end"
    out.append(f"Definition {d}_cast (params : list T) : option {d}_param :=\n    {cast_match}.")
    tl = []
    for c, margs, m, kind in specs:
        if kind == "update":
            tl.append(f"  | {c} params => {d}_cast params")
        else:
            f = m[4:]; a = margs[0][0]
            tup = ", ".join(a if g == f else f"{d}_{g} s" for g, _ in nargs)
            tl.append(f"  | {c} {a} => Some ({tup})")
    out.append(f"Definition {d}_target (s : {d}_state) (o : {d}_op) : option {d}_param :=\n  match o with\n" + "\n".join(tl) + "\n  end.")
    out.append(f"Definition {d}_wf (o : {d}_op) : bool :=\n  match o with\n" + "\n".join(
        (f"  | {c} params => Nat.eqb (length params) {n}" if k == "update" else f"  | {c} _ => true") for c, _, _, k in specs) + "\n  end.")
    out.append(f"Definition {d}_is_update (o : {d}_op) : bool :=\n  match o with\n" + "\n".join(
        (f"  | {c} _ => true" if k == "update" else f"  | {c} _ => false") for c, _, _, k in specs) + "\n  end.")
    # --- boundary: decode, flat
    zs = [a for a, t in nargs if t in INT_TYPES]; fs = [a for a, t in nargs if t == "f64"]
    lst = lambda xs: "[" + "; ".join(xs) + "]"
    out.append(f"Definition {d}_decode_param (zs : list Z) (fs : list T) : option {d}_param :=\n  match zs, fs with\n  | {lst(zs)}, {lst(fs)} => Some ({', '.join(a for a, _ in nargs)})\n  | _, _ => None\n  end.")
    dl = []
    for k, (c, margs, m, kind) in enumerate(specs):
        if kind == "update":
            dl.append(f"  | {k}%nat, [], params => Some ({c} params)")
        else:
            a, t = margs[0]
            dl.append(f"  | {k}%nat, [{a}], [] => Some ({c} {a})" if t in INT_TYPES else f"  | {k}%nat, [], [{a}] => Some ({c} {a})")
    out.append(f"Definition {d}_decode_op (k : nat) (zs : list Z) (fs : list T) : option {d}_op :=\n  match k, zs, fs with\n" + "\n".join(dl) + "\n  | _, _, _ => None\n  end.")
    parts = []
    for f, t in fields:
        if t == "f64": parts.append(f"([], [{d}_{f} s])")
        elif t in INT_TYPES: parts.append(f"([{d}_{f} s], [])")
        else: parts.append(f"({t}_flat ({d}_{f} s))")
    flat = parts[-1]
    for p_ in reversed(parts[:-1]): flat = f"flat_app {p_} ({flat})"
    out.append(f"Definition {d}_flat (s : {d}_state) : list Z * list T := {flat}.")
    out.append(f"Definition {d}_machine : machine T := {{|\n  m_state := {d}_state; m_op := {d}_op; m_param := {d}_param; m_new := {d}_new_p; m_step := {d}_step;\n"
               f"  m_params := {d}_params; m_target := {d}_target; m_wf := {d}_wf; m_is_update := {d}_is_update;\n"
               f"  m_decode_param := {d}_decode_param; m_decode_op := {d}_decode_op; m_flat := {d}_flat |}}.")
    names = [f"{d}_{f}" for f in fnames] + [f"{d}_with_{f}" for f in fnames] + [f"{d}_new", f"{d}_new_p", f"{d}_params"] + \
            [f"{d}_{m[0]}" for m in methods] + [f"{d}_step", f"{d}_cast", f"{d}_target", f"{d}_wf", f"{d}_is_update"]
    info["method_names"] = [m for _, _, m, _ in specs]
    return "\n".join(out), names


def generate(src_dir):
    ddir = os.path.join(src_dir, "distributions")
    mods = re.findall(r"^\s*mod\s+(\w+)\s*;", strip_comments(open(os.path.join(ddir, "mod.rs")).read()), re.M)
    known = {f for f, _ in DISTS} | OTHER_MODULES
    if set(mods) != known:
        raise Unsupported(f"distributions/mod.rs declares modules {sorted(set(mods) ^ known)} that this translator does not know")
    all_structs = {s for _, s in DISTS}
    dists = {}
    for f, s in DISTS:
        fields, new_fn, methods = parse_file(f, open(os.path.join(ddir, f + ".rs")).read(), s, all_structs)
        for fn_, t in fields:
            if t not in ("f64",) and t not in INT_TYPES and t not in all_structs:
                raise Unsupported(f"{f}.rs: field `{fn_}: {t}` has a type outside the subset (possible interior mutability)")
        dists[s] = {"file": f, "fields": fields, "new": new_fn, "methods": methods, "new_args": new_fn[1]}
    # dependency order
    order, done = [], set()
    def visit(s, stack=()):
        if s in done: return
        if s in stack: raise Unsupported(f"recursive struct {s}")
        for _, t in dists[s]["fields"]:
            if t in all_structs: visit(t, stack + (s,))
        done.add(s); order.append(s)
    for _, s in DISTS: visit(s)
    body, hints = [], []
    for s in order:
        txt, names = gen_dist(s, dists, dists[s]["file"])
        body.append(txt); hints.append((s, names))
    head = ("(** GENERATED by tools/tiea/dist_setters.py from src/distributions/*.rs -- do not edit.\n"
            "    One parameter state machine per univariate distribution: struct fields (cached sub-samplers included),\n"
            "    `new`, every `&mut self` method; [None]/[Panicked s] where the code panics.  Definitions only. *)\n"
            "From Coq Require Import ZArith QArith List Bool.\nFrom Compute Require Import Base.Ops Base.DistCore.\nImport ListNotations.\n"
            "Local Open Scope bool_scope.\n\nSection Machines.\nContext {T : Type} (O : Ops T).\n\n")
    tail = ("\n\n(** distribution id (as used by the harness) -> machine *)\nDefinition machines : list (machine T) :=\n  [" +
            "; ".join(f"{s}_machine" for _, s in DISTS) + "].\nEnd Machines.\n\n" +
            "\n".join(f"#[global] Hint Unfold {' '.join(n)} : {s}_db." for s, n in hints) + "\n" +
            "(* method index -> name, per distribution id:\n" +
            "\n".join(f"   {i} {s}: " + ", ".join(f"{k}={m}" for k, m in enumerate(dists[s]['method_names'])) for i, (_, s) in enumerate(DISTS)) + " *)\n")
    return head + "\n\n".join(body) + tail


if __name__ == "__main__":
    import sys
    print(generate(sys.argv[1] if len(sys.argv) > 1 else "/repo/src"))
