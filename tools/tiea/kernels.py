"""Tie A for C20: the scalar `forward` of both covariance kernels and the constructors' asserts of
src/predict/gps/kernels.rs, translated operation for operation by the expression translator tools/rsexpr.py into
coq/theories/Generated/kernels.v.  Proofs/TieA_kernels.v proves each generated term equal to the hand-written
model (Model/Kernels.v: rbf, rq, rbf_new, rq_new) for every carrier; Properties/C20.v pins them as
C20_model_is_source_*.

The scalar `forward` bodies live in `macro_rules! impl_kernel_f64_for_{rbf,rq}` with the point type `$t1`; the
translator checks that the macros are instantiated at `f64` and `&f64` only (references are transparent) and reads
`$t1` as f64.

The matrix-form `forward` (`impl_kernel_vec_for_{rbf,rq}`, instantiated at Matrix, Vector, &Matrix, &Vector) operates on
Matrix values and is outside the expression translator's subset; since the repair that forms the differences first its body is
    let (x, y) = (x.reshape(R1, C1), y.reshape(R2, C2));
    assert!(x.size() > 0 && y.size() > 0, "..");
    <expression>
where <expression> is, token for token, the body of the scalar `forward`.  That shape is CHECKED here on the source text
(anything else raises): the two reshape requests are read out and emitted (`kernels_matrix_form_x_reshape`,
`kernels_matrix_form_y_reshape`), and the identity of the remaining expression with the scalar body -- the term translated
above, read with x, y : Matrix -- is recorded (`kernels_matrix_form_rest_is_scalar_body`).  Proofs/TieA_kernels.v ties the
reshape requests to `to_column` / `to_row` of Model/KernelsPlumbing.v; the call order of the Matrix operators inside the
expression is the composition written in that file (tied by the bitwise correspondence)."""
import os, re, sys
sys.path.insert(0, os.path.join(os.path.dirname(os.path.abspath(__file__)), ".."))
import rsexpr
from rsexpr import Module, Translator, Config, Unsupported


def _block(text, start):
    """text[start] == '{': the text strictly inside the matching braces"""
    depth = 0
    for i in range(start, len(text)):
        if text[i] == "{": depth += 1
        elif text[i] == "}":
            depth -= 1
            if depth == 0: return text[start + 1:i]
    raise Unsupported("kernels.rs: unbalanced braces")


def _forward_body(text, mac):
    """body of `fn forward` inside `macro_rules! mac`, comments blanked, white space removed"""
    m = re.search(r"macro_rules!\s*" + mac + r"\s*\{", text)
    if not m: raise Unsupported(f"kernels.rs: macro `{mac}` not found")
    inner = _block(text, m.end() - 1)
    f = re.search(r"fn\s+forward\s*\(\s*&self\s*,\s*x\s*:\s*\$t1\s*,\s*y\s*:\s*\$t1\s*\)\s*->\s*(?:\$t2|f64)\s*\{", inner)
    if not f or len(re.findall(r"\bfn\b", inner)) != 1:
        raise Unsupported(f"kernels.rs: `{mac}` is expected to define exactly `fn forward(&self, x: $t1, y: $t1)`")
    return re.sub(r"\s+", "", _block(inner, f.end() - 1))


def matrix_form(text):
    """the matrix-form macros have the shape described in the module docstring; returns the two reshape requests"""
    text = rsexpr.blank_comments(text)
    shapes = set()
    for vec, sc in (("impl_kernel_vec_for_rbf", "impl_kernel_f64_for_rbf"), ("impl_kernel_vec_for_rq", "impl_kernel_f64_for_rq")):
        insts = re.findall(vec + r"!\s*\(([^)]*)\)\s*;", text)
        if sorted(i.replace(" ", "") for i in insts) != ["&Matrix,Matrix", "&Vector,Matrix", "Matrix,Matrix", "Vector,Matrix"]:
            raise Unsupported(f"kernels.rs: `{vec}!` is expected to be instantiated at Matrix, Vector, &Matrix, &Vector (-> Matrix) exactly, found {insts}")
        body, scalar = _forward_body(text, vec), _forward_body(text, sc)
        m = re.match(r'let\(x,y\)=\(x\.reshape\((-?\d+),(-?\d+)\),y\.reshape\((-?\d+),(-?\d+)\)\);'
                     r'assert!\(x\.size\(\)>0&&y\.size\(\)>0,"[^"]*"\);', body)
        if not m:
            raise Unsupported(f"kernels.rs: `{vec}`: the matrix-form forward must start with `let (x, y) = (x.reshape(..), y.reshape(..)); "
                              "assert!(x.size() > 0 && y.size() > 0, \"..\");`")
        if body[m.end():] != scalar:
            raise Unsupported(f"kernels.rs: `{vec}`: after the reshapes and the assertion the matrix-form forward must be, token for token, "
                              f"the body of the scalar forward of `{sc}`; found `{body[m.end():]}` against `{scalar}`")
        shapes.add(tuple(int(g) for g in m.groups()))
    if len(shapes) != 1:
        raise Unsupported(f"kernels.rs: the two matrix-form macros reshape their arguments differently: {sorted(shapes)}")
    return shapes.pop()


def generate(src_dir):
    rsexpr.selftest()      # the translator checks itself first (precedence, literal rule, refusals)
    path = os.path.join(src_dir, "predict", "gps", "kernels.rs")
    m = Module(path)
    text = m.src.text
    for mac in ("impl_kernel_f64_for_rbf", "impl_kernel_f64_for_rq"):
        insts = re.findall(mac + r"!\s*\(([^)]*)\)\s*;", text)
        if sorted(i.replace(" ", "") for i in insts) != ["&f64", "f64"]:
            raise Unsupported(f"kernels.rs: `{mac}!` is expected to be instantiated at f64 and &f64 exactly, found {insts}")
    tr = Translator(m, Config(param_types={"$t1": "f"}))
    out = [rsexpr.header("tools/tiea/kernels.py", ["predict/gps/kernels.rs"]), ""]
    out.append(tr.function("RBFKernel", "forward", "RBFKernel_forward", macro="impl_kernel_f64_for_rbf").text)
    out.append(tr.function("RationalQuadraticKernel", "forward", "RationalQuadraticKernel_forward", macro="impl_kernel_f64_for_rq").text)
    out.append(tr.function("RBFKernel", "new", "RBFKernel_new").text)
    out.append(tr.function("RationalQuadraticKernel", "new", "RationalQuadraticKernel_new").text)
    r1, c1, r2, c2 = matrix_form(text)
    z = lambda k: f"({k})%Z"
    out.append("")
    out.append("(* matrix form (impl_kernel_vec_for_rbf / impl_kernel_vec_for_rq at Matrix, Vector, &Matrix, &Vector), checked on the source text:\n"
               "     let (x, y) = (x.reshape(R1, C1), y.reshape(R2, C2));  assert!(x.size() > 0 && y.size() > 0, ..);  <expression>\n"
               "   with <expression> token for token the body of the scalar forward translated above *)")
    out.append(f"Definition kernels_matrix_form_x_reshape : Z * Z := ({z(r1)}, {z(c1)}).")
    out.append(f"Definition kernels_matrix_form_y_reshape : Z * Z := ({z(r2)}, {z(c2)}).")
    out.append("Definition kernels_matrix_form_asserts_nonempty : bool := true.")
    out.append("Definition kernels_matrix_form_rest_is_scalar_body : bool := true.")
    out.append("")
    out.append("(* translator notes: " + ("; ".join(tr.notes) or "none") + " *)")
    return "\n".join(out) + "\n"
