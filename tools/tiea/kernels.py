"""Tie A for C20: the scalar `forward` of both covariance kernels and the constructors' asserts of
src/predict/gps/kernels.rs, translated operation for operation by the expression translator tools/rsexpr.py into
coq/theories/Generated/kernels.v.  Proofs/TieA_kernels.v proves each generated term equal to the hand-written
model (Model/Kernels.v: rbf, rq, rbf_new, rq_new) for every carrier; Properties/C20.v pins them as
C20_model_is_source_*.

The scalar `forward` bodies live in `macro_rules! impl_kernel_f64_for_{rbf,rq}` with the point type `$t1`; the
translator checks that the macros are instantiated at `f64` and `&f64` only (references are transparent) and reads
`$t1` as f64.  The matrix-form `forward` (reshape / broadcast / dot_t plumbing) is outside the subset."""
import os, re, sys
sys.path.insert(0, os.path.join(os.path.dirname(os.path.abspath(__file__)), ".."))
import rsexpr
from rsexpr import Module, Translator, Config, Unsupported


def generate(src_dir):
    rsexpr.selftest()      # the translator checks itself first (precedence, literal rule, refusals)
    path = os.path.join(src_dir, "predict", "gps", "kernels.rs")
    m = Module(path)
    text = m.src.text
    for mac in ("impl_kernel_f64_for_rbf", "impl_kernel_f64_for_rq"):
        insts = re.findall(mac + r"!\s*\(([^)]*)\)\s*;", text)
        if sorted(i.replace(" ", "") for i in insts) != ["&f64", "f64"]:
            raise Unsupported(f"kernels.rs: `{mac}!` is expected to be instantiated at f64 and &f64 exactly, found {insts}")
    tr = Translator(m, Config(param_types={"$t1": "f"}))
    out = [rsexpr.header("tools/tiea/kernels.py", ["predict/gps/kernels.rs"]), ""]
    out.append(tr.function("RBFKernel", "forward", "RBFKernel_forward", macro="impl_kernel_f64_for_rbf").text)
    out.append(tr.function("RationalQuadraticKernel", "forward", "RationalQuadraticKernel_forward", macro="impl_kernel_f64_for_rq").text)
    out.append(tr.function("RBFKernel", "new", "RBFKernel_new").text)
    out.append(tr.function("RationalQuadraticKernel", "new", "RationalQuadraticKernel_new").text)
    out.append("")
    out.append("(* translator notes: " + ("; ".join(tr.notes) or "none") + " *)")
    return "\n".join(out) + "\n"
