"""Tie A for C15, constructors and slice utilities of src/linalg/utils.rs: `is_matrix`, `diag_matrix`, `toeplitz`,
`vandermonde`, `design`, `linspace`, `arange`, `is_design` translated statement for statement by the statement-level
translator (LoopTranslator of tools/rsexpr.py) into coq/theories/Generated/ctor_loops.v.  Proofs/TieA_ctor_loops.v proves
each generated function equal to the hand-written model of Model/Shape.v for every carrier and input; Properties/C15.v
pins those equalities as C15_model_is_source_*.  (`transpose`, `diag`, `is_symmetric` of the same file are in
tools/tiea/linalg_loops.py; C15 pins them against Model/Shape.v as well.)  Slices and Vecs are lists, `usize` / `i32`
live in Z, a panic (out-of-bounds index or slice, zero divisor, capacity overflow of `vec![0.; n * n]`, `.unwrap()` of
`Err`) is None.  Rule R4 (this target only): `n as usize` for the f64 `n` of `arange` is Z.max 0 (truncZ O n)."""
import os, sys
sys.path.insert(0, os.path.join(os.path.dirname(os.path.abspath(__file__)), ".."))
import rsexpr
from rsexpr import Module, LoopTranslator, Config

FNS = ["is_matrix", "diag_matrix", "toeplitz", "vandermonde", "design", "linspace", "arange", "is_design"]


def generate(src_dir):
    rsexpr.selftest()
    cfg = Config(calls={}, param_types={"Vector": ("list", "f")})
    cfg.float_to_usize = True
    out = [rsexpr.loops_header("tools/tiea/ctor_loops.py", ["linalg/utils.rs"], mut=True), ""]
    tr = LoopTranslator(Module(os.path.join(src_dir, "linalg", "utils.rs")), cfg)
    for fn in FNS:
        out.append(tr.function(None, fn, "src_" + fn).text)
    out += ["", "(* translator notes: " + ("; ".join(tr.notes) or "none") + " *)"]
    return "\n".join(out) + "\n"
