#!/bin/sh
# tools/integrate.sh <name> <ID> [<ID>...]: merge a helper's work: new files into /verif, its `fix:` commits (branch w-<name>) cherry-picked
# onto /repo main (in order), crate tests, project rebuild, ./check quick for each ID. Prints a summary; commits nothing in /verif.
set -e
N="$1"; shift
cd /verif
echo "== fix commits on w-$N"
git -C /repo log --reverse --format='%h %s' main..w-$N
for h in $(git -C /repo log --reverse --format='%h' main..w-$N); do
  git -C /repo cherry-pick -x "$h" >/dev/null 2>&1 || { echo "CONFLICT cherry-picking $h"; git -C /repo status --short | head; exit 1; }
done
echo "== crate tests"
(cd /repo && cargo test --offline 2>&1 | grep -E "^test result|FAILED|panicked" | head -8)
echo "== merge files"
tools/merge_work.sh "$N" "$@" | tail -3
tools/mkproject.sh
for id in "$@"; do
  echo "== ./check $id"
  ./check "$id" 2>&1 | tail -4
done
