#!/usr/bin/env python3
"""tools/keep_seed.py <src-dir> <ID-k> <PROP> "<confirm line>" "<detected-by text>": keep a confirmed seeded change under seeded/<ID-k>/"""
import sys, os, json, shutil
src, name, prop, confirm, detected = sys.argv[1:6]
dst = os.path.join(os.path.dirname(os.path.dirname(os.path.abspath(__file__))), "seeded", name)
os.makedirs(dst, exist_ok=True)
for f in ("patch.diff", "demo.rs"):
    shutil.copy2(os.path.join(src, f), os.path.join(dst, f))
meta = json.load(open(os.path.join(src, "meta.json")))
meta["property"] = prop
meta["confirmed"] = {"how": "tools/confirm_seed.sh in a scratch worktree: patch applies, crate builds, 66 lib tests + 3 doc tests pass unedited, demo exits non-zero with the change and 0 without", "result": confirm}
meta["ran"] = f"tools/try_seed.sh {prop} seeded/{name}/patch.diff quick  (git -C /repo apply; ./check {prop}; git -C /repo checkout -- .)"
meta["detected_by"] = detected
json.dump(meta, open(os.path.join(dst, "meta.json"), "w"), indent=1)
print("kept", dst)
