#!/usr/bin/env python3
"""Write /verif/MANIFEST.json from tools/props.json (one entry per property: claimed or not_applicable)."""
import json, os
ROOT = os.path.dirname(os.path.dirname(os.path.abspath(__file__)))
import glob
props = {os.path.basename(p)[:-5]: json.load(open(p)) for p in glob.glob(os.path.join(ROOT, "tools", "props.d", "C*.json"))}
ids = [json.loads(l)["id"] for l in open(os.path.join(ROOT, "properties.jsonl"))]
checks, na = [], []
for pid in ids:
    c = props.get(pid)
    if not c or not c.get("claimed", True):
        na.append({"property_id": pid, "reason": (c or {}).get("na_reason", "check not built yet in this round (model, theorems and correspondence are planned in DESIGN.md section 7); not claimed until it runs")})
        continue
    checks.append({
        "property_id": pid,
        "quick_cmd": f"./check {pid} --tier quick",
        "thorough_cmd": f"./check {pid} --tier thorough",
        "evidence_file": f"/verif/evidence/{pid}.json",
        "replay_cmd_template": f"./check {pid} --replay {{path}}",
        "engine": "coq+harness",
        "level_claimed": {"category": "proof", "text": c["level_text"], "design_ref": f"DESIGN.md section 7, {pid}"},
        "level_note": c["level_note"],
        "technique": c.get("technique", "Coq theorems on a generic Gallina model + in-kernel bit-exact correspondence with the Rust code"),
    })
m = {
    "version": 1,
    "setup_cmd": "./setup.sh",
    "hooks": {"guard": "compute_verif", "enable": "none needed: no hook or instrumentation was added to /repo (libm is interposed from the harness binary; iteration states are reached through public step budgets)",
              "baseline_off_cmd": "cd /repo && cargo test --workspace --no-fail-fast --offline", "source_commits": [], "add_only": True},
    "engines": [
        {"name": "coq", "path": "coq/", "serves_properties": [c["property_id"] for c in checks], "kind_free_text": "Coq 8.16.1 project: generic models (Ops record), specs, proofs, pinned property theorems, correspondence evaluators"},
        {"name": "harness", "path": "harness/", "serves_properties": [c["property_id"] for c in checks], "kind_free_text": "Rust crate (path dependency on /repo): case generation, implementation runs with interposed libm, failure-search oracles"},
        {"name": "check", "path": "check", "serves_properties": [c["property_id"] for c in checks], "kind_free_text": "python driver: build, Tie A regeneration, audit, correspondence, oracle, evidence"},
    ],
    "checks": checks,
    "not_applicable": na,
    "notes": "Every claimed check: (1) rebuilds the harness against /repo's working tree, (2) regenerates Tie-A Coq sources from /repo/src where applicable, (3) re-checks the pinned theorems of coq/theories/Properties/<id>.v with coqc, audits axioms, (4) runs the bit-exact model/implementation correspondence inside Coq, (5) runs the failure-search oracle. known_findings.txt lists fixed and recorded findings.",
}
json.dump(m, open(os.path.join(ROOT, "MANIFEST.json"), "w"), indent=1)
print(f"{len(checks)} claimed, {len(na)} not claimed")
